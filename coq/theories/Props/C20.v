(* C20 — Blocks are requested in deterministic depth-first link order (file part) *)
From UV Require Import File.Builder File.Spec File.ReaderProofs4 File.BuilderProofs3.
Local Open Scope Z_scope.

(* a full sequential read (and hence the preloading reification, which drains the same reader)
   requests the blocks in the depth-first, link-order walk of the file; the model has no source of
   nondeterminism, so the order is the same on every run *)
Theorem C20_read_order : forall b, well_sized b = true -> pos_sized b = true ->
  sloads (stream nofault b 0) = tl (preorder b).
Proof. exact read_order. Qed.
Print Assumptions C20_read_order.

(* builder-written files satisfy the premise whenever the chunker emits no empty chunk *)
Theorem C20_built_files_pos_sized : forall W chunks root sz,
  Forall nonempty chunks -> build_file W chunks = Ok (root, sz) -> pos_sized root = true.
Proof. exact build_file_pos. Qed.
Print Assumptions C20_built_files_pos_sized.

(* ---- sharded directories ---- *)
From UV Require Import Hamt.Read Hamt.IterOrder.
Local Open Scope N_scope.

(* for EVERY block DAG (well-formed or hostile) and every availability of blocks: the storage requests of a full
   iteration of a sharded directory, in order, are the depth-first walk over the child-shard links in link order *)
Theorem C20_sharded_iteration_order : forall fault b pf rp,
  loads_of (iter_blk fault b pf rp) = shard_walk fault b pf.
Proof. exact iterate_requests_walk. Qed.
Print Assumptions C20_sharded_iteration_order.

(* length() / preload: a prefix of the same walk, all of it when a count is returned *)
Theorem C20_sharded_length_order : forall fault b pf, exists rest,
  shard_walk fault b pf = snd (length_blk fault b pf) ++ rest /\ (forall m, fst (length_blk fault b pf) = Ok m -> rest = []).
Proof. exact length_requests_walk_prefix. Qed.
Print Assumptions C20_sharded_length_order.

(* a path traversal requests the blocks along the path in root-to-target order: the trace is the concatenation, in path
   order, of each segment's lookup requests followed by the entry's block *)
From UV Require Import Sel.PathLoads.
Theorem C20_path_resolution_order : forall fault hash b segs,
  snd (walk_path fault hash b segs) = walk_spec fault hash b segs.
Proof. exact walk_path_requests. Qed.
Print Assumptions C20_path_resolution_order.

(* KNOWN FINDING (known_findings.json, C20-unsized-measured-first): over file nodes whose children carry no declared size
   (File/UnsizedLoads.v) a full read does not first-request the blocks in depth-first link order when an earlier child
   declares its FileSize and a later one has to be opened with its leaves to be measured *)
From UV Require Import File.Spec File.Unsized File.UnsizedLoads.
Theorem C20_unsized_order_refuted :
  exists b, uwell b = true /\
    let '(_, loads, st) := drain_all (ustreamL nofault b 0) [] [] in
    st = StEOF /\ first_requests [] loads <> tl (preorder b).
Proof. exact unsized_order_refuted. Qed.
Print Assumptions C20_unsized_order_refuted.

(* reference-written files in the trickle layout (File/Trickle.v; raw leaves, no empty chunk): a full sequential read requests
   the blocks in the depth-first, link-order walk *)
From UV Require Import File.Builder File.BuilderProofs File.BuilderProofs3 File.Trickle File.TrickleProofs.
Theorem C20_reference_trickle_read_order : forall (W : nat) (chunks : list bytes), (1 <= W)%nat -> chunks <> [] -> Forall nonempty chunks -> (blen (concat chunks) < bound63)%N ->
  let b := fst (trickle_layout W chunks) in
  sloads (stream nofault b 0) = tl (preorder b).
Proof. exact trickle_read_order. Qed.
Print Assumptions C20_reference_trickle_read_order.
