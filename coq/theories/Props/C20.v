(* C20 — Blocks are requested in deterministic depth-first link order (file part) *)
From UV Require Import File.Builder File.Spec File.ReaderProofs4 File.BuilderProofs3.
Local Open Scope Z_scope.

(* a full sequential read (and hence the preloading reification, which drains the same reader)
   requests the blocks in the depth-first, link-order walk of the file; the model has no source of
   nondeterminism, so the order is the same on every run *)
Theorem C20_read_order : forall b, well_sized b = true -> pos_sized b = true ->
  sloads (stream nofault b 0) = tl (preorder b).
Proof. exact read_order. Qed.
Print Assumptions C20_read_order.

(* builder-written files satisfy the premise whenever the chunker emits no empty chunk *)
Theorem C20_built_files_pos_sized : forall W chunks root sz,
  Forall nonempty chunks -> build_file W chunks = Ok (root, sz) -> pos_sized root = true.
Proof. exact build_file_pos. Qed.
Print Assumptions C20_built_files_pos_sized.
