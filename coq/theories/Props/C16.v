(* C16 — Builders store children before parents and fail cleanly when a write fails *)
From UV Require Import Build.Store Build.StoreProofs.
Local Open Scope N_scope.

(* BuildUnixFSFile, for EVERY width, chunk list and EVERY failure plan (any k-th open, any k-th commit):
   every prefix of the commit sequence is free of dangling links (children committed before parents);
   an error never comes with a link; a link comes only after its whole DAG was committed and only if
   no write failed *)
Theorem C16_file_build_store_safe : forall fo fc W chunks lnk sz err s',
  BuildUnixFSFile fo fc W chunks ws0 = ((lnk, sz, err), s') ->
  (forall pre post, ws_trace s' = pre ++ post -> dfree pre)
  /\ (err <> None -> lnk = None)
  /\ (err = None -> exists root, lnk = Some root /\ (forall x, In x (built_blocks root) -> In x (ws_trace s'))
                               /\ no_failure fo fc s' /\ clean s').
Proof. exact file_build_store_safe. Qed.
Print Assumptions C16_file_build_store_safe.

Theorem C16_symlink_store_safe : forall fo fc target lnk sz err s',
  BuildUnixFSSymlink fo fc target ws0 = ((lnk, sz, err), s') ->
  (err <> None -> lnk = None)
  /\ (err = None -> lnk = Some (symlink_blk target) /\ In (symlink_blk target) (ws_trace s')).
Proof. exact symlink_store_safe. Qed.
Print Assumptions C16_symlink_store_safe.

(* a dangling-free store is closed: every committed block's whole builder-produced DAG is committed *)
Theorem C16_dangling_free_is_closed : forall tr, dfree tr ->
  forall b, In b tr -> forall x, In x (built_blocks b) -> In x tr.
Proof. exact dfree_closed. Qed.
Print Assumptions C16_dangling_free_is_closed.

(* ---- directories ---- *)
From UV Require Import Hamt.Build Build.DirStoreProofs.
Local Open Scope N_scope.

(* BuildUnixFSShardedDirectory for EVERY fanout, entry list (entries stored earlier, i.e. external to this build) and
   EVERY plan of failing opens/commits: at every interruption point no committed shard has a dangling link to a shard
   of the same build; an error comes without a link; a link comes only after the whole shard DAG was committed *)
Theorem C16_sharded_directory_store_safe : forall fo fc size entries lnk sz err s',
  (forall e, In e entries -> is_ext (e_target e) = true) ->
  BuildUnixFSShardedDirectory fo fc size HashMurmur3 entries ws0 = ((lnk, sz, err), s') ->
  (forall pre post, ws_trace s' = pre ++ post -> dfree pre)
  /\ (err <> None -> lnk = None)
  /\ (err = None -> exists root, lnk = Some root /\ (forall x, In x (built_blocks root) -> In x (ws_trace s'))
                               /\ no_failure fo fc s' /\ clean s').
Proof. exact sharded_build_store_safe. Qed.
Print Assumptions C16_sharded_directory_store_safe.

Theorem C16_plain_directory_store_safe : forall fo fc entries lnk sz err s',
  (forall e, In e entries -> is_ext (e_target e) = true) ->
  BuildUnixFSDirectoryPlain fo fc entries ws0 = ((lnk, sz, err), s') ->
  (forall pre post, ws_trace s' = pre ++ post -> dfree pre)
  /\ (err <> None -> lnk = None)
  /\ (err = None -> lnk = Some (fst (build_plain entries)) /\ In (fst (build_plain entries)) (ws_trace s')).
Proof. exact plain_build_store_safe. Qed.
Print Assumptions C16_plain_directory_store_safe.

(* BuildUnixFSRecursive with its writes, for EVERY tree (files, symlinks, directories of any size), every width / chunker /
   name hash and EVERY plan of failing opens and commits: children are committed before the directory that links to them
   (every prefix of the commit sequence is free of dangling links), an error comes without a link, a link only after its
   whole DAG was committed and only if no write failed *)
From UV Require Import Build.FsImport Build.ImportStore.
Theorem C16_recursive_import_store_safe : forall fo fc W chunk hash t lnk sz err s',
  BuildUnixFSRecursive fo fc W chunk hash t ws0 = ((lnk, sz, err), s') ->
  (forall pre post, ws_trace s' = pre ++ post -> dfree pre)
  /\ (err <> None -> lnk = None)
  /\ (err = None -> exists root, lnk = Some root /\ (forall x, In x (built_blocks root) -> In x (ws_trace s'))
                               /\ no_failure fo fc s' /\ clean s').
Proof. exact import_store_safe. Qed.
Print Assumptions C16_recursive_import_store_safe.

(* whenever the builders with storage effects return a link, link and size are exactly what the effect-free builders
   compute - the models the functional theorems (C01, C02, C07, C11, C18) are about *)
From UV Require Import Build.StorePure File.Builder.
Theorem C16_stored_result_is_the_pure_result : forall fo fc W chunk hash t s r s',
  import_s fo fc W chunk hash t s = (Ok r, s') -> import W chunk hash t = Ok r.
Proof. exact import_s_pure. Qed.
Print Assumptions C16_stored_result_is_the_pure_result.

Theorem C16_stored_file_is_the_pure_file : forall fo fc W chunks s r s',
  build_file_s fo fc W chunks s = (Ok r, s') -> build_file W chunks = Ok r.
Proof. exact build_file_s_pure. Qed.
Print Assumptions C16_stored_file_is_the_pure_file.
