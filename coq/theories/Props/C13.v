(* C13 — Malformed or hostile blocks produce errors, never panics or unbounded work *)
From UV Require Import Codec.Decode Codec.NoPanic Reify.Model Reify.Proofs Hamt.Read Hamt.NoPanic File.Reader File.BuilderProofs.
Local Open Scope N_scope.

(* arbitrary bytes given to the three decoders: a value or an error *)
Theorem C13_decode_data_no_panic : forall bs, decode_data bs <> Panic.
Proof. exact decode_data_no_panic. Qed.
Print Assumptions C13_decode_data_no_panic.
Theorem C13_decode_time_no_panic : forall bs, decode_time bs <> Panic.
Proof. exact decode_time_no_panic. Qed.
Print Assumptions C13_decode_time_no_panic.
Theorem C13_decode_meta_no_panic : forall bs, decode_meta bs <> Panic.
Proof. exact decode_meta_no_panic. Qed.
Print Assumptions C13_decode_meta_no_panic.

(* arbitrary dag-pb blocks (any Data payload, any links, any child blocks, any storage faults):
   reification, lookups, iteration and length return values or errors.  The model has Panic exactly
   at the Go panic sites (index into the hash, slice of a link name, Must() on absent fields); these
   theorems show the guards cover them on every input. *)
Theorem C13_reify_no_panic : forall fault lazy n, do_reify fault lazy n <> Panic.
Proof.
  intros fault lazy n. pose proof (reify_classification fault lazy n) as H.
  destruct n as [id|[c|[d|] ls|i k]]; try (rewrite H; discriminate).
  destruct (decode_data d) as [m| |]; try (rewrite H; discriminate).
  destruct (expected_class (d_type m)); [|rewrite H; discriminate].
  destruct (do_reify fault lazy (APb (Pb (Some d) ls))); [discriminate|discriminate|contradiction].
Qed.
Print Assumptions C13_reify_no_panic.

Theorem C13_lookup_no_panic : forall fault b pf hb key consumed, fst (lookup_blk fault b pf hb key consumed) <> Panic.
Proof. exact lookup_no_panic. Qed.
Print Assumptions C13_lookup_no_panic.

Theorem C13_iterate_no_panic : forall fault root, no_ipanic (iterate fault root).
Proof. exact iterate_no_panic. Qed.
Print Assumptions C13_iterate_no_panic.

Theorem C13_length_no_panic : forall fault b pf, fst (length_blk fault b pf) <> Panic.
Proof. exact length_no_panic. Qed.
Print Assumptions C13_length_no_panic.

(* the hash-index guard: Next never indexes past the hash *)
Theorem C13_hash_index_guarded : forall hb consumed i, 1 <= i -> hb_next hb consumed i <> Panic.
Proof. exact hb_next_no_panic. Qed.
Print Assumptions C13_hash_index_guarded.

(* file readers: a Seek never panics and never corrupts the state (the reply is a position or an error) *)
Theorem C13_seek_no_panic : forall fault root st off whence,
  snd (reader_step fault root st (OpSeek off whence)) <> OSeek Panic.
Proof.
  intros fault root st off whence. cbn [reader_step].
  assert (Hl : node_length root <> Panic).
  { destruct root as [c|d [|l ls]|i n]; try (cbn; discriminate).
    - cbn [node_length]. unfold wrapped_bytes. destruct d as [db|]; [|cbn; discriminate].
      pose proof (decode_data_no_panic db). destruct (decode_data db); cbn; congruence.
    - rewrite node_length_pb_cons. cbv zeta.
      destruct (link_sizes (node_meta d) 0 (l :: ls)) as [sizes|e|]; destruct (node_meta d) as [m|];
        try destruct (d_filesize m); try destruct e; discriminate. }
  destruct (whence =? 0); [|destruct (whence =? 1); [|destruct (whence =? 2)]];
    cbn [bind]; try (destruct (node_length root); cbn [bind]; try congruence);
    repeat match goal with |- context [if ?c then _ else _] => destruct c end; cbn; discriminate.
Qed.
Print Assumptions C13_seek_no_panic.

(* the same for file nodes whose children have to be opened to be measured (File/Unsized.v): measuring any DAG under
   any set of unavailable blocks, and any Seek over it, gives a value or an error *)
From UV Require Import File.Unsized File.UnsizedSafe.
Theorem C13_unsized_length_no_panic : forall fault b, usize fault b <> Panic.
Proof. exact usize_no_panic. Qed.
Print Assumptions C13_unsized_length_no_panic.
Theorem C13_unsized_seek_no_panic : forall fault root st off whence,
  snd (ureader_step fault root st (OpSeek off whence)) <> OSeek Panic.
Proof. exact useek_no_panic. Qed.
Print Assumptions C13_unsized_seek_no_panic.

(* ---- work bounds ---- *)
From UV Require Import Hamt.HashBitsSpec Hamt.IterOrder Hamt.WorkBound.
Local Open Scope N_scope.

(* a lookup on ANY block DAG requests at most one block per unread bit of the key's hash (<= 64 for murmur3-x64-64),
   however deep or cyclic-looking the hostile DAG is: every level consumes at least one bit and a level that would
   read past the hash is an error *)
Theorem C13_lookup_work_bounded : forall fault b pf hb key consumed,
  let tr := snd (lookup_blk fault b pf hb key consumed) in
  tr = [] \/ consumed + N.of_nat (length tr) <= nbits hb.
Proof. exact lookup_loads_bounded. Qed.
Print Assumptions C13_lookup_work_bounded.

(* full iteration and length(): at most one event / one request per link of the (unfolded) DAG that was given *)
Theorem C13_iteration_work_bounded : forall fault b pf rp,
  N.of_nat (length (iter_blk fault b pf rp)) <= tree_links b + 1.
Proof. exact iteration_steps_bounded. Qed.
Print Assumptions C13_iteration_work_bounded.

Theorem C13_iteration_requests_bounded : forall fault b pf,
  N.of_nat (length (shard_walk fault b pf)) <= tree_links b.
Proof. exact iteration_requests_bounded. Qed.
Print Assumptions C13_iteration_requests_bounded.

Theorem C13_length_requests_bounded : forall fault b pf,
  N.of_nat (length (snd (length_blk fault b pf))) <= tree_links b.
Proof. exact length_requests_bounded. Qed.
Print Assumptions C13_length_requests_bounded.

(* the file reader on ANY block DAG (hostile sizes included), from any offset: the effect stream consumed by Read after
   opening or seeking - block requests and per-block byte runs - has fewer than two events per node of the unfolded DAG *)
From UV Require Import File.Reader File.WorkBound.
Theorem C13_file_stream_bounded : forall fault b off, slen (stream fault b off) + 1 <= 2 * tnodes b.
Proof. exact stream_events_bounded. Qed.
Print Assumptions C13_file_stream_bounded.
