(* C09 — UnixFS Data codec agrees with the UnixFS protobuf schema in both directions *)
From UV Require Import Codec.Presentation Codec.Proofs Codec.RoundTrip.
Local Open Scope N_scope.

(* Every presentation a conformant encoder can emit (fields in any order, block sizes as separate
   varints in order or as one packed run, unknown varint/fixed32/fixed64/bytes fields interleaved,
   timestamp fields in any order with unknown fields) decodes to exactly its logical message; a
   presentation without a logical message (singular field twice, no type) is rejected. *)
Theorem C09_decode_presentation : forall its : list ditem,
  Forall wf_ditem its ->
  decode_data (wire_data its) = match logical_data its with Some m => Ok m | None => Err EDecode end.
Proof. exact decode_presentation. Qed.
Print Assumptions C09_decode_presentation.

Theorem C09_decode_time_presentation : forall its t,
  Forall wf_titem its -> logical_time its = Some t -> decode_time (wire_time its) = Ok t.
Proof. exact decode_time_presentation. Qed.
Print Assumptions C09_decode_time_presentation.

(* what this library encodes is read back (by itself, and by the reference reading `logical_data`)
   as the same logical message, a mode equal to the type default being elided *)
Theorem C09_decode_encode : forall m, wf_udata m -> decode_data (encode_data m) = Ok (canon m).
Proof. exact decode_encode. Qed.
Print Assumptions C09_decode_encode.

Theorem C09_reference_reads_ours : forall m,
  encode_data m = wire_data (canon_items m) /\ logical_data (canon_items m) = Some (canon m).
Proof. intros m; split; [apply encode_is_canon_wire|apply logical_canon]. Qed.
Print Assumptions C09_reference_reads_ours.

(* decoding then re-encoding a canonically encoded message reproduces its bytes *)
Theorem C09_reencode : forall m, wf_udata m ->
  match decode_data (encode_data m) with Ok m' => encode_data m' = encode_data m | _ => False end.
Proof. exact decode_reencode. Qed.
Print Assumptions C09_reencode.

(* permission bits: low twelve bits of the mode, or 0644 / 0755 / 0755; they survive the round trip *)
Theorem C09_permissions_spec : forall m,
  permissions m = match d_mode m with
                  | Some mode => mode mod 4096
                  | None => if d_type m =? 2 then 420 else if (d_type m =? 1) || (d_type m =? 5) then 493 else 0
                  end.
Proof. exact permissions_spec. Qed.
Print Assumptions C09_permissions_spec.

Theorem C09_perm_roundtrip : forall m, wf_udata m ->
  match decode_data (encode_data m) with Ok m' => permissions m' = permissions m | _ => False end.
Proof. intros m Hw. rewrite decode_encode by exact Hw. apply perm_roundtrip. Qed.
Print Assumptions C09_perm_roundtrip.

(* ---- non-minimal varints ---- *)
From UV Require Import Base.Varint Base.VarintProofs.
Local Open Scope N_scope.

(* a conformant encoder may pad a varint with continuation bytes: the n-byte form of v (1 <= n <= 10).  ConsumeVarint,
   through which the decoders read every tag, length and integer field, returns v for every such form, whatever follows;
   the minimal form AppendVarint writes is one of them *)
Theorem C09_padded_varints_decode : forall (n : nat) (v : N) (r : bytes),
  (1 <= n <= 10)%nat -> v < 2 ^ (7 * N.of_nat n) -> v < 2 ^ 64 -> dec_varint (enc_varint_n n v ++ r) = Some (v, r).
Proof. exact dec_padded_varint. Qed.
Print Assumptions C09_padded_varints_decode.

Theorem C09_padded_varint_example :
  enc_varint_n 3 300 = [172; 130; 0] /\ enc_varint 300 = [172; 2] /\ dec_varint ([172; 130; 0] ++ [7]) = Some (300, [7])
  /\ dec_varint (enc_varint_n 10 18446744073709551615) = Some (18446744073709551615, []).
Proof. exact padded_varint_example. Qed.
Print Assumptions C09_padded_varint_example.

(* ---- whole messages with non-minimal varints ---- *)
From UV Require Import Codec.Padded.

(* `data_enc its w`: w is a wire form of the presentation `its` in which EVERY varint — each field tag, each length
   prefix, each integer field, each element of a packed run, and the same inside the timestamp sub-message — is written
   in any of its valid n-byte forms, chosen independently at every occurrence.  Every such wire form decodes to the
   logical message of the presentation (or is rejected when the presentation has none) *)
Theorem C09_decode_padded_presentation : forall its w,
  data_enc its w ->
  decode_data w = match logical_data its with Some m => Ok m | None => Err EDecode end.
Proof. exact decode_padded_presentation. Qed.
Print Assumptions C09_decode_padded_presentation.

Theorem C09_decode_time_padded : forall its w t,
  time_enc its w -> logical_time its = Some t -> decode_time w = Ok t.
Proof. exact decode_time_padded. Qed.
Print Assumptions C09_decode_time_padded.

(* the minimal wire forms of C09_decode_presentation are instances of the relation *)
Theorem C09_minimal_is_padded_instance : forall its, Forall wf_ditem its -> data_enc its (wire_data its).
Proof. exact wire_data_is_enc. Qed.
Print Assumptions C09_minimal_is_padded_instance.

(* non-vacuity: a message whose tag, integer and length varints are padded to 2-4 bytes *)
Theorem C09_padded_presentation_example :
  let w := [136; 128; 0; 130; 0; 152; 0; 133; 128; 128; 0; 18; 130; 128; 0; 7; 9] in
  data_enc [DType 2; DFileSize 5; DData [7; 9]] w
  /\ decode_data w = Ok (mk_ud 2 (Some [7; 9]) (Some 5) [] None None None None).
Proof. exact padded_presentation_example. Qed.
Print Assumptions C09_padded_presentation_example.

(* UnixFSMetadata: every wire form (mime type anywhere, unknown fields interleaved, any varint widths) decodes to the
   mime type of the presentation; a repeated mime type is rejected *)
Theorem C09_decode_metadata_presentation : forall its w,
  meta_enc its w ->
  decode_meta w = match apply_mitems None its with Some st => Ok (mk_um st) | None => Err EDecode end.
Proof. exact decode_meta_presentation. Qed.
Print Assumptions C09_decode_metadata_presentation.

(* unknown fields of EVERY wire type — deprecated groups included, nested to any depth up to protowire's recursion
   limit, with any varint widths inside — placed before, between or after the known fields do not change what the
   message decodes to (`fval h num typ pb`: pb is a well-formed value of field (num, typ) of group-nesting height h) *)
From UV Require Import Codec.Groups.
Theorem C09_unknown_fields_incl_groups : forall its w,
  xdata_enc its w ->
  decode_data w = match logical_data (known_of its) with Some m => Ok m | None => Err EDecode end.
Proof. exact decode_with_unknown_fields. Qed.
Print Assumptions C09_unknown_fields_incl_groups.

Theorem C09_field_values_are_skipped : forall h num typ pb r,
  fval h num typ pb -> (h <= length pb)%nat -> (Z.of_nat h <= 10001)%Z -> skip_field num typ (pb ++ r) = Some r.
Proof. exact skip_field_fval. Qed.
Print Assumptions C09_field_values_are_skipped.

Theorem C09_group_example :
  let w := [99; 8; 5; 107; 108; 100; 8; 2] in
  xdata_enc [XSkip 12 WT_StartGroup 2; XKnown (DType 2)] w
  /\ decode_data w = Ok (mk_ud 2 None None [] None None None None).
Proof. exact group_example. Qed.
Print Assumptions C09_group_example.
