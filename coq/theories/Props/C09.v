(* C09 — UnixFS Data codec agrees with the UnixFS protobuf schema in both directions *)
From UV Require Import Codec.Presentation Codec.Proofs Codec.RoundTrip.
Local Open Scope N_scope.

(* Every presentation a conformant encoder can emit (fields in any order, block sizes as separate
   varints in order or as one packed run, unknown varint/fixed32/fixed64/bytes fields interleaved,
   timestamp fields in any order with unknown fields) decodes to exactly its logical message; a
   presentation without a logical message (singular field twice, no type) is rejected. *)
Theorem C09_decode_presentation : forall its : list ditem,
  Forall wf_ditem its ->
  decode_data (wire_data its) = match logical_data its with Some m => Ok m | None => Err EDecode end.
Proof. exact decode_presentation. Qed.
Print Assumptions C09_decode_presentation.

Theorem C09_decode_time_presentation : forall its t,
  Forall wf_titem its -> logical_time its = Some t -> decode_time (wire_time its) = Ok t.
Proof. exact decode_time_presentation. Qed.
Print Assumptions C09_decode_time_presentation.

(* what this library encodes is read back (by itself, and by the reference reading `logical_data`)
   as the same logical message, a mode equal to the type default being elided *)
Theorem C09_decode_encode : forall m, wf_udata m -> decode_data (encode_data m) = Ok (canon m).
Proof. exact decode_encode. Qed.
Print Assumptions C09_decode_encode.

Theorem C09_reference_reads_ours : forall m,
  encode_data m = wire_data (canon_items m) /\ logical_data (canon_items m) = Some (canon m).
Proof. intros m; split; [apply encode_is_canon_wire|apply logical_canon]. Qed.
Print Assumptions C09_reference_reads_ours.

(* decoding then re-encoding a canonically encoded message reproduces its bytes *)
Theorem C09_reencode : forall m, wf_udata m ->
  match decode_data (encode_data m) with Ok m' => encode_data m' = encode_data m | _ => False end.
Proof. exact decode_reencode. Qed.
Print Assumptions C09_reencode.

(* permission bits: low twelve bits of the mode, or 0644 / 0755 / 0755; they survive the round trip *)
Theorem C09_permissions_spec : forall m,
  permissions m = match d_mode m with
                  | Some mode => mode mod 4096
                  | None => if d_type m =? 2 then 420 else if (d_type m =? 1) || (d_type m =? 5) then 493 else 0
                  end.
Proof. exact permissions_spec. Qed.
Print Assumptions C09_permissions_spec.

Theorem C09_perm_roundtrip : forall m, wf_udata m ->
  match decode_data (encode_data m) with Ok m' => permissions m' = permissions m | _ => False end.
Proof. intros m Hw. rewrite decode_encode by exact Hw. apply perm_roundtrip. Qed.
Print Assumptions C09_perm_roundtrip.

(* ---- non-minimal varints ---- *)
From UV Require Import Base.Varint Base.VarintProofs.
Local Open Scope N_scope.

(* a conformant encoder may pad a varint with continuation bytes: the n-byte form of v (1 <= n <= 10).  ConsumeVarint,
   through which the decoders read every tag, length and integer field, returns v for every such form, whatever follows;
   the minimal form AppendVarint writes is one of them *)
Theorem C09_padded_varints_decode : forall (n : nat) (v : N) (r : bytes),
  (1 <= n <= 10)%nat -> v < 2 ^ (7 * N.of_nat n) -> v < 2 ^ 64 -> dec_varint (enc_varint_n n v ++ r) = Some (v, r).
Proof. exact dec_padded_varint. Qed.
Print Assumptions C09_padded_varints_decode.

Theorem C09_padded_varint_example :
  enc_varint_n 3 300 = [172; 130; 0] /\ enc_varint 300 = [172; 2] /\ dec_varint ([172; 130; 0] ++ [7]) = Some (300, [7])
  /\ dec_varint (enc_varint_n 10 18446744073709551615) = Some (18446744073709551615, []).
Proof. exact padded_varint_example. Qed.
Print Assumptions C09_padded_varint_example.
