(* C17 — Reified nodes can be read from several goroutines at once (the logic; Go's memory model and
   scheduler are not modelled — the race detector supports the search only) *)
From UV Require Import Conc.Memo.
From Coq Require Import String.
Local Open Scope N_scope.

(* over the access table REGENERATED from the source on every run: every access to the state a reified
   node mutates after construction (shardCache, cachedLength, file metadata) sits under its guard *)
Theorem C17_accesses_guarded : forallb access_ok accesses = true.
Proof. vm_compute. reflexivity. Qed.
Print Assumptions C17_accesses_guarded.

(* the guarded state is a memo of pure loads: under ANY interleaving of the lock-protected cache
   operations of any number of goroutines every call obtains what it computes when run alone *)
Theorem C17_memo_pure : forall (K V : Type) (keqb : K -> K -> bool),
  (forall a b, keqb a b = true <-> a = b) ->
  forall (load : K -> V) (before : list (step K V)) (k : K),
    Forall (honest K V load) before -> memo_result K V keqb load (fold_left (apply K V keqb) before []) k = load k.
Proof. exact memo_pure. Qed.
Print Assumptions C17_memo_pure.
