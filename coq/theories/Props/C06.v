(* C06 — Preload / entity access fetches the whole entity, nothing beyond it, or fails (file part;
   the sharded-directory part — every shard, no entry block, error on a missing shard — is decided per
   run by the length()/preload model correspondence and the oracle of the hamt scenario) *)
From UV Require Import File.Spec File.PreloadProofs.
Local Open Scope Z_scope.

Theorem C06_preload_file : forall fault b, well_sized b = true -> pos_sized b = true ->
  let '(_, loads, st) := drain_all (stream fault b 0) [] [] in
  (Forall (fun x => fault x = None) (tl (preorder b)) -> st = StEOF /\ loads = tl (preorder b))
  /\ ((exists x, In x (tl (preorder b)) /\ fault x <> None) -> exists e, st = StErr e).
Proof. exact preload_file. Qed.
Print Assumptions C06_preload_file.

(* KNOWN FINDING (known_findings.json, C06-leading-empty-child-not-fetched / C20-leading-empty-child-not-requested): without
   `pos_sized` the first clause fails - an empty child at the very start of its parent is stepped over, never requested:
   the file "" "aaa" "bbb" preloads although its first block is unavailable *)
Theorem C06_leading_empty_child_refuted :
  exists b fault, well_sized b = true
    /\ (exists x, In x (tl (preorder b)) /\ fault x <> None)
    /\ drain_all (stream fault b 0) [] [] = ([97; 97; 97; 98; 98; 98]%N, tl (tl (preorder b)), StEOF).
Proof. exact leading_empty_child_refuted. Qed.
Print Assumptions C06_leading_empty_child_refuted.

(* "nothing beyond it", also for file nodes whose children have to be opened to be measured (File/UnsizedLoads.v): whatever
   is unavailable, every block the extended reader requests - measuring included - is a block of the file's DAG *)
From UV Require Import File.Unsized File.UnsizedLoads.
Theorem C06_unsized_requests_inside : forall fault b off,
  incl (sloads (ustreamL fault b off)) (tl (preorder b)).
Proof. exact ustreamL_requests_inside. Qed.
Print Assumptions C06_unsized_requests_inside.

(* ---- sharded directories ---- *)
From UV Require Import Hamt.Build Hamt.Read Hamt.ShardDecode Hamt.Refine Hamt.RefineTrace Hamt.RefineLength Base.Varint.
From Coq Require Import Permutation.
Local Open Scope N_scope.

(* the preloading reifier of a sharded directory runs length(): it requests only shard blocks of the directory
   (never an entry's block), every one of them when all are available, and fails if any of them is unavailable *)
Theorem C06_sharded_preload : forall size lg, permitted size lg ->
  forall H : bytes -> bytes, (forall k, wf_bytes (H k) = true) -> (forall k, length (H k) = 8%nat) ->
  forall entries root sz,
  Forall (entry_ok H) entries -> NoDup (map e_name entries) ->
  build_sharded size HashMurmur3 entries = Ok (root, sz) ->
  exists shards : list blk,
    Forall (fun x => exists sh, mk_shard_of x = Ok sh) shards /\
    forall fault,
      incl (snd (shard_length fault root)) shards
      /\ (forall m, fst (shard_length fault root) = Ok m -> Forall (fun t => fault t = None) shards)
      /\ (Forall (fun t => fault t = None) shards ->
          fst (shard_length fault root) = Ok (N.of_nat (length entries)) /\ Permutation (snd (shard_length fault root)) shards).
Proof. exact sharded_length_under_faults. Qed.
Print Assumptions C06_sharded_preload.

(* the same for a sharded directory the REFERENCE implementation wrote after any history of Sets and Removes (Hamt/RefModel.v) *)
From UV Require Import Hamt.RefModel Hamt.RefHistory.
Theorem C06_reference_shard_preload : forall size lg, permitted size lg ->
  forall H : bytes -> bytes, (forall k, wf_bytes (H k) = true) -> (forall k, length (H k) = 8%nat) ->
  forall fuel ops t, Forall (hop_ok H) ops -> hrun lg fuel ops = Ok t ->
  let root := fst (serialize_node size HashMurmur3 (pad_len size) (BShard t)) in
  exists shards : list blk,
    Forall (fun x => exists sh, mk_shard_of x = Ok sh) shards /\
    forall fault,
      incl (snd (shard_length fault root)) shards
      /\ (forall m, fst (shard_length fault root) = Ok m -> Forall (fun t => fault t = None) shards)
      /\ (Forall (fun t => fault t = None) shards ->
          fst (shard_length fault root) = Ok (N.of_nat (length (mrun ops))) /\ Permutation (snd (shard_length fault root)) shards).
Proof. exact ref_history_length_under_faults. Qed.
Print Assumptions C06_reference_shard_preload.

(* reference-written files in the trickle layout (File/Trickle.v; raw leaves, no empty chunk): preloading requests exactly the
   file's blocks, or fails *)
From UV Require Import File.Builder File.BuilderProofs File.BuilderProofs3 File.Trickle File.TrickleProofs.
Theorem C06_reference_trickle_preload : forall (W : nat) (chunks : list bytes), (1 <= W)%nat -> chunks <> [] -> Forall nonempty chunks -> (blen (concat chunks) < bound63)%N ->
  let b := fst (trickle_layout W chunks) in
  forall fault,
  let '(_, loads, st) := drain_all (stream fault b 0) [] [] in
  (Forall (fun x => fault x = None) (tl (preorder b)) -> st = StEOF /\ loads = tl (preorder b))
  /\ ((exists x, In x (tl (preorder b)) /\ fault x <> None) -> exists e, st = StErr e).
Proof. exact trickle_preload. Qed.
Print Assumptions C06_reference_trickle_preload.
