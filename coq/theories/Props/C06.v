(* C06 — Preload / entity access fetches the whole entity, nothing beyond it, or fails (file part;
   the sharded-directory part — every shard, no entry block, error on a missing shard — is decided per
   run by the length()/preload model correspondence and the oracle of the hamt scenario) *)
From UV Require Import File.Spec File.PreloadProofs.
Local Open Scope Z_scope.

Theorem C06_preload_file : forall fault b, well_sized b = true -> pos_sized b = true ->
  let '(_, loads, st) := drain_all (stream fault b 0) [] [] in
  (Forall (fun x => fault x = None) (tl (preorder b)) -> st = StEOF /\ loads = tl (preorder b))
  /\ ((exists x, In x (tl (preorder b)) /\ fault x <> None) -> exists e, st = StErr e).
Proof. exact preload_file. Qed.
Print Assumptions C06_preload_file.
