(* C06 — Preload / entity access fetches the whole entity, nothing beyond it, or fails (file part;
   the sharded-directory part — every shard, no entry block, error on a missing shard — is decided per
   run by the length()/preload model correspondence and the oracle of the hamt scenario) *)
From UV Require Import File.Spec File.PreloadProofs.
Local Open Scope Z_scope.

Theorem C06_preload_file : forall fault b, well_sized b = true -> pos_sized b = true ->
  let '(_, loads, st) := drain_all (stream fault b 0) [] [] in
  (Forall (fun x => fault x = None) (tl (preorder b)) -> st = StEOF /\ loads = tl (preorder b))
  /\ ((exists x, In x (tl (preorder b)) /\ fault x <> None) -> exists e, st = StErr e).
Proof. exact preload_file. Qed.
Print Assumptions C06_preload_file.

(* ---- sharded directories ---- *)
From UV Require Import Hamt.Build Hamt.Read Hamt.ShardDecode Hamt.Refine Hamt.RefineTrace Hamt.RefineLength Base.Varint.
From Coq Require Import Permutation.
Local Open Scope N_scope.

(* the preloading reifier of a sharded directory runs length(): it requests only shard blocks of the directory
   (never an entry's block), every one of them when all are available, and fails if any of them is unavailable *)
Theorem C06_sharded_preload : forall size lg, permitted size lg ->
  forall H : bytes -> bytes, (forall k, wf_bytes (H k) = true) -> (forall k, length (H k) = 8%nat) ->
  forall entries root sz,
  Forall (entry_ok H) entries -> NoDup (map e_name entries) ->
  build_sharded size HashMurmur3 entries = Ok (root, sz) ->
  exists shards : list blk,
    Forall (fun x => exists sh, mk_shard_of x = Ok sh) shards /\
    forall fault,
      incl (snd (shard_length fault root)) shards
      /\ (forall m, fst (shard_length fault root) = Ok m -> Forall (fun t => fault t = None) shards)
      /\ (Forall (fun t => fault t = None) shards ->
          fst (shard_length fault root) = Ok (N.of_nat (length entries)) /\ Permutation (snd (shard_length fault root)) shards).
Proof. exact sharded_length_under_faults. Qed.
Print Assumptions C06_sharded_preload.
