(* C02 — Built directories (plain and HAMT-sharded) behave as the map of their entries *)
From UV Require Import Hamt.HashBits Hamt.HashBitsProofs Hamt.HashBitsSpec Hamt.Build Hamt.Read Hamt.ShardDecode Hamt.Refine Dir.Plain Dir.PlainProofs Dir.BuildProofs Base.Varint.
From Coq Require Import Permutation.
Local Open Scope N_scope.

(* bucket choice: for EVERY hash, offset and width inside the hash, the reader's Next and the builder's
   Slice return the same, arithmetic, most-significant-first bits (h / 2^(total-off-w)) mod 2^w —
   bits 48..63 included — so both sides pick the same bucket at every level for every fanout *)
Theorem C02_reader_and_builder_same_bucket : forall hb off w,
  hb_slice hb off w = match hb_next hb off w with Ok (v, _) => Ok v | Err e => Err e | Panic => Panic end.
Proof. exact next_slice_same_bucket. Qed.
Print Assumptions C02_reader_and_builder_same_bucket.

Theorem C02_slice_is_msb_first_bits : forall hb off w,
  wf_bytes hb = true -> 1 <= w -> off + w <= nbits hb -> hb_slice hb off w = Ok (bits_at hb off w).
Proof. exact hb_slice_spec. Qed.
Print Assumptions C02_slice_is_msb_first_bits.

Theorem C02_next_is_msb_first_bits : forall hb off w,
  wf_bytes hb = true -> 1 <= w -> off + w <= nbits hb -> hb_next hb off w = Ok (bits_at hb off w, off + w).
Proof. exact hb_next_spec. Qed.
Print Assumptions C02_next_is_msb_first_bits.

(* past the last bit of the hash both report "too deep" — an error, never a mis-built directory or a panic *)
Theorem C02_too_deep_is_an_error : forall hb off w,
  nbits hb < off + w -> hb_slice hb off w = Err EInvalid /\ hb_next hb off w = Err EInvalid.
Proof. exact hb_too_deep. Qed.
Print Assumptions C02_too_deep_is_an_error.

(* plain directories: for EVERY list of entries with distinct names the stored link list is the map of the entries *)
Theorem C02_plain_directory_is_map : forall entries, NoDup (map e_name entries) ->
  (forall e, In e entries -> lookup_by_string (plain_links entries) (e_name e) = Ok (e_target e))
  /\ (forall k, ~ In k (map e_name entries) -> lookup_by_string (plain_links entries) k = Err ENotFound)
  /\ Permutation (map pair_of (plain_links entries)) (map (fun e => (e_name e, e_target e)) entries)
  /\ dir_length (plain_links entries) = Z.of_nat (length entries).
Proof. exact plain_dir_is_map. Qed.
Print Assumptions C02_plain_directory_is_map.

(* sharded directories: for EVERY permitted fanout (8..1024), EVERY 8-byte name hash H and EVERY list of entries
   with distinct non-empty names, what BuildUnixFSShardedDirectory wrote and NewUnixFSHAMTShard reads back is the
   map of the entries: members resolve to their link, every other name is not-found, iteration yields each entry
   exactly once under its un-prefixed name, and the length is the entry count *)
Theorem C02_sharded_directory_is_map : forall size lg, permitted size lg ->
  forall H : bytes -> bytes, (forall k, wf_bytes (H k) = true) -> (forall k, length (H k) = 8%nat) ->
  forall entries root sz,
  Forall (entry_ok H) entries -> NoDup (map e_name entries) ->
  build_sharded size HashMurmur3 entries = Ok (root, sz) ->
  (forall e, In e entries -> fst (Read.lookup nofault root (H (e_name e)) (e_name e)) = Ok (e_target e))
  /\ (forall key, ~ In key (map e_name entries) -> fst (Read.lookup nofault root (H key) key) = Err ENotFound)
  /\ Permutation (map snd (iterate nofault root)) (map yield_of entries)
  /\ fst (shard_length nofault root) = Ok (N.of_nat (length entries)).
Proof. exact sharded_dir_is_map. Qed.
Print Assumptions C02_sharded_directory_is_map.

(* the hypotheses are satisfiable: a fanout-8 directory with names colliding on the first levels *)
Theorem C02_sharded_example :
  permitted 8 3 /\ Forall (entry_ok demo_hash) demo_entries /\ NoDup (map e_name demo_entries)
  /\ exists root sz, build_sharded 8 HashMurmur3 demo_entries = Ok (root, sz)
     /\ fst (Read.lookup nofault root (demo_hash [65; 1]) [65; 1]) = Ok (Ext 3 36)
     /\ fst (Read.lookup nofault root (demo_hash [65; 2]) [65; 2]) = Err ENotFound
     /\ fst (shard_length nofault root) = Ok 5.
Proof. exact demo_sharded_dir. Qed.
Print Assumptions C02_sharded_example.
