(* C11 — Sizes recorded and returned by builders are the true cumulative/content sizes (file builder;
   the directory builders are in Dir/ and Hamt/ proofs) *)
From UV Require Import File.Builder File.Spec File.BuilderProofs File.BuilderProofs2.

(* returned size = encoded length of the root + sizes of everything beneath it (cum_size, summed over
   the tree, not the de-duplicated store); every link carries the cumulative size of its target
   (tsizes_ok); every interior node's FileSize and BlockSizes are the content sizes beneath it and
   beneath each child (well_sized) *)
Theorem C11_file_sizes : forall (W : nat), (2 <= W)%nat -> forall chunks,
  (blen (concat chunks) < bound63)%N ->
  exists root sz,
    build_file W chunks = Ok (root, sz)
    /\ content root = concat chunks
    /\ well_sized root = true
    /\ sz = cum_size root
    /\ tsizes_ok root = true.
Proof. exact build_file_ok. Qed.
Print Assumptions C11_file_sizes.
