(* C11 — Sizes recorded and returned by builders are the true cumulative/content sizes (file builder;
   the directory builders are in Dir/ and Hamt/ proofs) *)
From UV Require Import File.Builder File.Spec File.BuilderProofs File.BuilderProofs2.

(* returned size = encoded length of the root + sizes of everything beneath it (cum_size, summed over
   the tree, not the de-duplicated store); every link carries the cumulative size of its target
   (tsizes_ok); every interior node's FileSize and BlockSizes are the content sizes beneath it and
   beneath each child (well_sized) *)
Theorem C11_file_sizes : forall (W : nat), (2 <= W)%nat -> forall chunks,
  (blen (concat chunks) < bound63)%N ->
  exists root sz,
    build_file W chunks = Ok (root, sz)
    /\ content root = concat chunks
    /\ well_sized root = true
    /\ sz = cum_size root
    /\ tsizes_ok root = true.
Proof. exact build_file_ok. Qed.
Print Assumptions C11_file_sizes.

(* ---- directories ---- *)
From UV Require Import Hamt.Build Hamt.TrieProofs Hamt.Refine Hamt.SizeProofs Dir.BuildProofs.
From Coq Require Import Permutation.
Local Open Scope N_scope.

(* sharded directories, every fanout and every trie: the size serialize returns is the encoded length of every
   shard block it wrote (root included) plus the sizes supplied for the entries *)
Theorem C11_sharded_size_is_cumulative : forall size hasher n cs, n = BShard cs ->
  snd (serialize_node size hasher (pad_len size) n) =
  shard_bytes size hasher n + nsum (map entry_size (entries_of n)).
Proof. exact sharded_size_is_cumulative. Qed.
Print Assumptions C11_sharded_size_is_cumulative.

(* ... and every link written into a shard block carries the cumulative size of its target *)
Theorem C11_sharded_links_carry_sizes : forall size cs b c, In (b, c) cs ->
  exists l, In l (map (Refine.link_of size) cs) /\
    l_target l = match c with BVal e => e_target e | BShard _ => fst (serialize_node size HashMurmur3 (pad_len size) c) end /\
    l_tsize l = Some (match c with BVal e => e_tsize e | BShard _ => Z.of_N (snd (serialize_node size HashMurmur3 (pad_len size) c)) end).
Proof. exact sharded_links_carry_sizes. Qed.
Print Assumptions C11_sharded_links_carry_sizes.

(* plain directories *)
Theorem C11_plain_directory_sizes : forall entries,
  snd (build_plain entries) = enc_len (fst (build_plain entries)) + nsum (map entry_size entries)
  /\ Permutation (map (fun l => (l_target l, l_tsize l)) (match fst (build_plain entries) with Pb _ ls => ls | _ => [] end))
                 (map (fun e => (e_target e, Some (e_tsize e))) entries).
Proof. exact plain_size_is_cumulative. Qed.
Print Assumptions C11_plain_directory_sizes.

(* the recursive importer: for EVERY tree of files (< 2^63 bytes), symlinks and directories of any size (plain or sharded,
   at every level) the size BuildUnixFSRecursive returns is the cumulative stored size of the DAG it built, as long as
   that total is below 2^64 (and with it every link carries the cumulative size of its target: `sized`) *)
From UV Require Import Build.FsImport Build.ImportSizes File.Spec.
Theorem C11_import_size_is_cumulative : forall W, (2 <= W)%nat -> forall chunk, (forall b, concat (chunk b) = b) ->
  forall hash t, files_fit t -> forall b sz,
  import W chunk hash t = Ok (b, sz) -> cum_size b < 2 ^ 64 -> sz = cum_size b.
Proof. exact import_size_is_cumulative. Qed.
Print Assumptions C11_import_size_is_cumulative.

(* the two directory builders on entries that carry the cumulative sizes of their targets *)
Theorem C11_plain_size_is_cum : forall entries, Forall sized entries -> snd (build_plain entries) = cum_size (fst (build_plain entries)).
Proof. exact plain_size_is_cum. Qed.
Print Assumptions C11_plain_size_is_cum.

Theorem C11_sharded_size_is_cum : forall size lg entries root sz,
  Forall sized entries -> log2_exact size = Some lg -> build_sharded size HashMurmur3 entries = Ok (root, sz) -> sz = cum_size root.
Proof. exact sharded_size_is_cum. Qed.
Print Assumptions C11_sharded_size_is_cum.
