(* C03 — UnixFS path selectors resolve to exactly the named entity *)
From UV Require Import Sel.Model Sel.Proofs.

Theorem C03_path_selector_resolves : forall root path target,
  is_match_target target ->
  walk_matching root (build_selector path target false) =
  match resolve root (parse_path path) with Some x => [VUnixFS x] | None => [] end.
Proof. exact path_selector_resolves. Qed.
Print Assumptions C03_path_selector_resolves.

Theorem C03_explore_all_matches_nothing : forall root path,
  walk_matching root (build_selector path ExploreAllRecursivelySelector false) = [].
Proof. exact path_selector_explore_all_matches_nothing. Qed.
Print Assumptions C03_explore_all_matches_nothing.

(* KNOWN FINDING (recorded, not repaired: the repair changes the selector JSON pinned by the existing
   tests): with path matching enabled the walk stops at the raw root *)
Theorem C03_matchpath_stops_at_raw_root : forall root path target,
  parse_path path <> [] -> walk_matching root (build_selector path target true) = [VRaw root].
Proof. exact matchpath_stops_at_raw_root. Qed.
Print Assumptions C03_matchpath_stops_at_raw_root.

Theorem C03_matchpath_clause_refuted :
  exists root path target expected,
    is_match_target target /\ matchpath_expected root (parse_path path) = Some expected
    /\ length (walk_matching root (build_selector path target true)) <> length expected.
Proof. exact matchpath_clause_refuted. Qed.
Print Assumptions C03_matchpath_clause_refuted.
