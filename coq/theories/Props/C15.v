(* C15 — Directory nodes satisfy the map-node contract on any link list (plain / generic link map part;
   the sharded part is C15_sharded below once Hamt/ReadProofs is built). *)
From UV Require Import Dir.Plain Dir.PlainProofs.

Theorem C15_plain_map_contract : forall ls : list plink,
  let ys := fst (drain (S (length ls)) ls) in
  let fin := snd (drain (S (length ls)) ls) in
  ys = map pair_of ls /\ Z.of_nat (length ys) = dir_length ls /\ it_done fin = true
  /\ fst (it_next fin) = Err EOverread
  /\ (forall k v, In (k, v) ys -> exists v', lookup_by_string ls k = Ok v' /\ In (k, v') ys)
  /\ (forall k, lookup ls k = option_map snd (find (fun p => bytes_eqb k (fst p)) ys))
  /\ (forall k v, lookup_by_string ls k = Ok v -> In (k, v) ys)
  /\ (forall k, ~ In k (map fst ys) -> lookup_by_string ls k = Err ENotFound)
  /\ (forall k, lookup_by_node ls k = lookup_by_string ls k /\ lookup_by_segment ls k = lookup_by_string ls k
                /\ lookup_native ls k = match lookup_by_string ls k with Ok v => Some v | _ => None end).
Proof. exact plain_map_contract. Qed.
Print Assumptions C15_plain_map_contract.
