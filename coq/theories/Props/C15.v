(* C15 — Directory nodes satisfy the map-node contract on any link list (plain / generic link map part)
   and on every sharded directory written by this library. *)
From UV Require Import Hamt.Build Hamt.Read Hamt.TrieProofs Hamt.ShardDecode Hamt.Refine Hamt.RefineAny Hamt.RefModel Hamt.RefHistory Base.Varint.
From Coq Require Import Permutation.
From UV Require Import Dir.Plain Dir.PlainProofs.
Local Open Scope N_scope.

Theorem C15_plain_map_contract : forall ls : list plink,
  let ys := fst (drain (S (length ls)) ls) in
  let fin := snd (drain (S (length ls)) ls) in
  ys = map pair_of ls /\ Z.of_nat (length ys) = dir_length ls /\ it_done fin = true
  /\ fst (it_next fin) = Err EOverread
  /\ (forall k v, In (k, v) ys -> exists v', lookup_by_string ls k = Ok v' /\ In (k, v') ys)
  /\ (forall k, lookup ls k = option_map snd (find (fun p => bytes_eqb k (fst p)) ys))
  /\ (forall k v, lookup_by_string ls k = Ok v -> In (k, v) ys)
  /\ (forall k, ~ In k (map fst ys) -> lookup_by_string ls k = Err ENotFound)
  /\ (forall k, lookup_by_node ls k = lookup_by_string ls k /\ lookup_by_segment ls k = lookup_by_string ls k
                /\ lookup_native ls k = match lookup_by_string ls k with Ok v => Some v | _ => None end).
Proof. exact plain_map_contract. Qed.
Print Assumptions C15_plain_map_contract.

(* sharded directories written by this library: as many pairs as the reported length, every yielded key is found
   and resolves to the link yielded under it, keys never yielded are not found *)
Theorem C15_sharded_map_contract : forall size lg, permitted size lg ->
  forall H : bytes -> bytes, (forall k, wf_bytes (H k) = true) -> (forall k, length (H k) = 8%nat) ->
  forall entries root sz,
  Forall (entry_ok H) entries -> NoDup (map e_name entries) ->
  build_sharded size HashMurmur3 entries = Ok (root, sz) ->
  fst (shard_length nofault root) = Ok (N.of_nat (length (iterate nofault root)))
  /\ (forall k v, In (IYield k v) (map snd (iterate nofault root)) -> fst (Read.lookup nofault root (H k) k) = Ok v)
  /\ (forall k, (forall v, ~ In (IYield k v) (map snd (iterate nofault root))) -> fst (Read.lookup nofault root (H k) k) = Err ENotFound).
Proof. exact sharded_dir_contract. Qed.
Print Assumptions C15_sharded_map_contract.

(* ANY well-formed HAMT, however it was produced (our builder, the reference implementation after any history of
   inserts and removals): the serialization of every trie keeping the HAMT invariants reads back as the map of its
   entries through lookup, iteration and length *)
Theorem C15_any_wellformed_shard : forall size lg, permitted size lg ->
  forall H : bytes -> bytes, (forall k, wf_bytes (H k) = true) -> (forall k, length (H k) = 8%nat) ->
  forall cs,
  bwf lg 0 (BShard cs) -> bok size H (BShard cs) -> NoDup (map e_name (entries_of (BShard cs))) ->
  let root := fst (serialize_node size HashMurmur3 (pad_len size) (BShard cs)) in
  let entries := entries_of (BShard cs) in
  (forall e, In e entries -> fst (Read.lookup nofault root (H (e_name e)) (e_name e)) = Ok (e_target e))
  /\ (forall key, ~ In key (map e_name entries) -> fst (Read.lookup nofault root (H key) key) = Err ENotFound)
  /\ Permutation (map snd (iterate nofault root)) (map yield_of entries)
  /\ fst (shard_length nofault root) = Ok (N.of_nat (length entries)).
Proof. exact wellformed_shard_is_map. Qed.
Print Assumptions C15_any_wellformed_shard.

(* ... and on every shard the REFERENCE implementation writes after any history of Sets and Removes (Hamt/RefModel.v) the
   map-node contract holds: as many iteration pairs as the length, every yielded key found with the yielded link, others not found *)
Theorem C15_reference_shard_map_contract : forall size lg, permitted size lg ->
  forall H : bytes -> bytes, (forall k, wf_bytes (H k) = true) -> (forall k, length (H k) = 8%nat) ->
  forall fuel ops t, Forall (hop_ok H) ops -> hrun lg fuel ops = Ok t ->
  let root := fst (serialize_node size HashMurmur3 (pad_len size) (BShard t)) in
  fst (shard_length nofault root) = Ok (N.of_nat (length (iterate nofault root)))
  /\ (forall k v, In (IYield k v) (map snd (iterate nofault root)) -> fst (Read.lookup nofault root (H k) k) = Ok v)
  /\ (forall k, (forall v, ~ In (IYield k v) (map snd (iterate nofault root))) -> fst (Read.lookup nofault root (H k) k) = Err ENotFound).
Proof. exact ref_history_contract. Qed.
Print Assumptions C15_reference_shard_map_contract.
