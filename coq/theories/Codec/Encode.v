(* data/marshal.go *)
From UV Require Export Codec.Message.
Local Open Scope N_scope.

Definition opt_field {A} (o : option A) (f : A -> bytes) : bytes :=
  match o with Some a => f a | None => [] end.

(* AppendEncodeUnixTime *)
Definition encode_time (t : unixtime) : bytes :=
  enc_tag UnixTime_SecondsWireNum WT_Varint ++ enc_varint (ut_seconds t)
  ++ opt_field (ut_nanos t) (fun n => enc_tag UnixTime_FractionalNanosecondsWireNum WT_Fixed32 ++ enc_fixed32 (n mod 4294967296)).

(* the size computed by hand in AppendEncodeUnixFSData: SizeTag(1) + SizeVarint(seconds) [+ SizeTag(2) + 4] *)
Definition time_size (t : unixtime) : N :=
  1 + size_varint (ut_seconds t) + match ut_nanos t with Some _ => 1 + 4 | None => 0 end.

(* AppendEncodeUnixFSData: field-number order, default mode elided, mtime length-prefixed *)
Definition encode_data (m : udata) : bytes :=
  enc_tag Data_DataTypeWireNum WT_Varint ++ enc_varint (d_type m)
  ++ opt_field (d_data m) (fun b => enc_tag Data_DataWireNum WT_Bytes ++ enc_bytes b)
  ++ opt_field (d_filesize m) (fun v => enc_tag Data_FileSizeWireNum WT_Varint ++ enc_varint v)
  ++ flat_map (fun v => enc_tag Data_BlockSizesWireNum WT_Varint ++ enc_varint v) (d_blocksizes m)
  ++ opt_field (d_hashtype m) (fun v => enc_tag Data_HashTypeWireNum WT_Varint ++ enc_varint v)
  ++ opt_field (d_fanout m) (fun v => enc_tag Data_FanoutWireNum WT_Varint ++ enc_varint v)
  ++ opt_field (d_mode m) (fun v => if v =? default_perm (d_type m) then []
                                    else enc_tag Data_ModeWireNum WT_Varint ++ enc_varint v)
  ++ opt_field (d_mtime m) (fun t => enc_tag Data_MtimeWireNum WT_Bytes ++ enc_varint (time_size t) ++ encode_time t).

Definition encode_meta (m : umeta) : bytes :=
  opt_field (m_mime m) (fun b => enc_tag Metadata_MimeTypeWireNum WT_Bytes ++ enc_bytes b).
