From UV Require Import Base.VarintProofs Codec.WireProofs Codec.Presentation.
From Coq Require Import ZifyN ZifyNat ZifyBool.
Local Open Scope N_scope.
Ltac Zify.zify_post_hook ::= Z.div_mod_to_equations.

(* decide closed field-number / wire-type tests *)
Ltac closed_tests :=
  repeat match goal with
  | |- context [N.eqb ?a ?b] =>
    let v := eval vm_compute in (N.eqb a b) in
    match v with
    | true => change (N.eqb a b) with true
    | false => change (N.eqb a b) with false
    end
  end; cbv iota; cbn [negb].

Lemma pow64 : 2 ^ 64 = 18446744073709551616. Proof. reflexivity. Qed.

(* ---------- unknown fields are skipped ---------- *)
Lemma skip_ufield num u r :
  wf_ufield u -> skip_field num (ufield_typ u) (ufield_payload u ++ r) = Some r.
Proof.
  intros Hw. unfold skip_field. cbn [consume_field_value].
  destruct u as [v|v|b|b]; cbn [ufield_typ ufield_payload wf_ufield] in *; closed_tests.
  - rewrite dec_enc_varint by exact Hw. reflexivity.
  - rewrite consume_fixed32_enc by exact Hw. reflexivity.
  - unfold consume_fixed64. replace 8 with (N.of_nat (length b)) by lia. rewrite take_n_app. reflexivity.
  - rewrite consume_bytes_enc by exact Hw. reflexivity.
Qed.

Lemma ufield_typ_lt8 u : ufield_typ u < 8.
Proof. destruct u; cbv; reflexivity. Qed.

(* ---------- timestamps ---------- *)
Lemma dec_time_loop_cons f st bs :
  bs <> [] ->
  dec_time_loop (S f) st bs =
  match consume_tag bs with
  | None => Err EDecode
  | Some (num, typ, r) =>
    match dec_time_field st num typ r with
    | Ok (st', r') => dec_time_loop f st' r'
    | Err e => Err e
    | Panic => Panic
    end
  end.
Proof. destruct bs; [congruence|reflexivity]. Qed.

Lemma titem_tag_ok i : wf_titem i -> 1 <= titem_num i <= 2147483647 /\ titem_typ i < 8.
Proof.
  destruct i as [v|v|n u]; cbn [titem_num titem_typ wf_titem]; intros H.
  - split; [cbv; split; discriminate|reflexivity].
  - split; [cbv; split; discriminate|reflexivity].
  - destruct H as [H _]. split; [lia|apply ufield_typ_lt8].
Qed.

Lemma dec_time_field_item st i r :
  wf_titem i ->
  dec_time_field st (titem_num i) (titem_typ i) (titem_payload i ++ r) =
  match apply_titem st i with Some st' => Ok (st', r) | None => Err EDecode end.
Proof.
  intros Hw. unfold dec_time_field.
  destruct i as [v|v|n u]; cbn [titem_num titem_typ titem_payload apply_titem wf_titem] in *.
  - closed_tests. rewrite dec_enc_varint by exact Hw. destruct (ts_seconds st); reflexivity.
  - closed_tests. rewrite consume_fixed32_enc by exact Hw. destruct (ts_nanos st); reflexivity.
  - destruct Hw as [Hn Hu].
    replace (n =? UnixTime_SecondsWireNum) with false by (symmetry; apply N.eqb_neq; cbv [UnixTime_SecondsWireNum]; lia).
    replace (n =? UnixTime_FractionalNanosecondsWireNum) with false by (symmetry; apply N.eqb_neq; cbv [UnixTime_FractionalNanosecondsWireNum]; lia).
    rewrite skip_ufield by exact Hu. reflexivity.
Qed.

Lemma wire_titem_length i : (1 <= length (wire_titem i))%nat.
Proof. unfold wire_titem, enc_tag. rewrite app_length. pose proof (enc_varint_length (titem_num i * 8 + titem_typ i)). lia. Qed.

Lemma dec_time_loop_items its : forall fuel st,
  Forall wf_titem its -> (length (wire_time its) <= fuel)%nat ->
  dec_time_loop fuel st (wire_time its) =
  match apply_titems st its with Some st' => Ok st' | None => Err EDecode end.
Proof.
  induction its as [|i its IH]; intros fuel st Hw Hf.
  - cbn. destruct fuel; reflexivity.
  - inversion Hw as [|? ? Hi Hr]; subst.
    cbn [wire_time flat_map] in *. fold (wire_time its) in *.
    rewrite app_length in Hf. pose proof (wire_titem_length i) as Hl.
    destruct fuel as [|f]; [lia|].
    rewrite dec_time_loop_cons.
    2:{ destruct (wire_titem i) as [|x xs] eqn:Ew; [cbn in Hl; lia|discriminate]. }
    unfold wire_titem. rewrite <- !app_assoc.
    destruct (titem_tag_ok i Hi) as [Hn Ht].
    rewrite consume_tag_enc by assumption.
    rewrite dec_time_field_item by exact Hi.
    cbn [apply_titems]. destruct (apply_titem st i) as [st'|]; [|reflexivity].
    apply IH; [exact Hr|lia].
Qed.

Theorem decode_time_presentation its t :
  Forall wf_titem its -> logical_time its = Some t -> decode_time (wire_time its) = Ok t.
Proof.
  intros Hw Hl. unfold decode_time, logical_time in *.
  rewrite dec_time_loop_items by (auto; lia).
  destruct (apply_titems (mk_tst None None) its) as [[s n]|]; [|discriminate].
  cbn. destruct s; [|discriminate]. inversion Hl. reflexivity.
Qed.

(* ---------- packed block sizes ---------- *)
Lemma count_term_enc_aux f : forall v, (1 <= f)%nat -> v < 2 ^ (7 * N.of_nat f) -> count_terminators (enc_varint_aux f v) = 1%nat.
Proof.
  induction f as [|f IH]; intros v Hf Hv; [lia|].
  cbn [enc_varint_aux]. destruct (N.ltb_spec v 128) as [Hlt|Hge].
  - unfold count_terminators. cbn. destruct (N.ltb_spec v 128); [reflexivity|lia].
  - unfold count_terminators in *. cbn [filter].
    destruct (N.ltb_spec (v mod 128 + 128) 128); [lia|].
    destruct f as [|f']; [change (2 ^ (7 * N.of_nat 1)) with 128 in Hv; lia|].
    apply IH; [lia|]. replace (7 * N.of_nat (S (S f'))) with (7 * N.of_nat (S f') + 7) in Hv by lia.
    rewrite N.pow_add_r in Hv. change (2 ^ 7) with 128 in Hv.
    apply N.div_lt_upper_bound; lia.
Qed.

Lemma count_term_enc v : v < 2 ^ 64 -> count_terminators (enc_varint v) = 1%nat.
Proof.
  intros Hv. apply count_term_enc_aux; [lia|].
  eapply N.lt_le_trans; [exact Hv|]. apply N.pow_le_mono_r; lia.
Qed.

Lemma count_term_app a b : count_terminators (a ++ b) = (count_terminators a + count_terminators b)%nat.
Proof. unfold count_terminators. rewrite filter_app, app_length. reflexivity. Qed.

Lemma count_term_run l : Forall (fun v => v < 2 ^ 64) l -> count_terminators (flat_map enc_varint l) = length l.
Proof.
  induction 1 as [|v l Hv _ IH]; [reflexivity|].
  cbn [flat_map length]. rewrite count_term_app, count_term_enc, IH by assumption. reflexivity.
Qed.

Lemma consume_block_sizes_run l : Forall (fun v => v < 2 ^ 64) l ->
  consume_block_sizes (length l) (flat_map enc_varint l) = Some l.
Proof.
  induction 1 as [|v l Hv _ IH]; [reflexivity|].
  cbn [flat_map length consume_block_sizes]. rewrite dec_enc_varint by exact Hv. rewrite IH. reflexivity.
Qed.

(* ---------- Data ---------- *)
Lemma dec_data_loop_cons f st bs :
  bs <> [] ->
  dec_data_loop (S f) st bs =
  match consume_tag bs with
  | None => Err EDecode
  | Some (num, typ, r) =>
    match dec_data_field st num typ r with
    | Ok (st', r') => dec_data_loop f st' r'
    | Err e => Err e
    | Panic => Panic
    end
  end.
Proof. destruct bs; [congruence|reflexivity]. Qed.

Lemma ditem_tag_ok i : wf_ditem i -> 1 <= ditem_num i <= 2147483647 /\ ditem_typ i < 8.
Proof.
  destruct i as [v|b|v|v|l|v|v|v|t|n u]; cbn [ditem_num ditem_typ wf_ditem]; intros H.
  10:{ destruct H as [H _]. split; [lia|apply ufield_typ_lt8]. }
  all: split; [cbv; split; discriminate|reflexivity].
Qed.

Lemma dec_data_field_item st i r :
  wf_ditem i ->
  dec_data_field st (ditem_num i) (ditem_typ i) (ditem_payload i ++ r) =
  match apply_ditem st i with Some st' => Ok (st', r) | None => Err EDecode end.
Proof.
  intros Hw. destruct st as [ty da fs bs ha fa mo mt]. unfold dec_data_field, varint_once.
  destruct i as [v|b|v|v|l|v|v|v|t|n u];
    cbn [ditem_num ditem_typ ditem_payload apply_ditem wf_ditem] in *.
  - closed_tests. rewrite dec_enc_varint by exact Hw. destruct ty; reflexivity.
  - closed_tests. rewrite consume_bytes_enc by exact Hw. destruct da; reflexivity.
  - closed_tests. rewrite dec_enc_varint by exact Hw. destruct fs; reflexivity.
  - closed_tests. destruct bs; try reflexivity; rewrite dec_enc_varint by exact Hw; reflexivity.
  - closed_tests. destruct Hw as [Hl Hlen]. rewrite consume_bytes_enc by exact Hlen.
    destruct bs; try reflexivity.
    rewrite count_term_run, consume_block_sizes_run by exact Hl. reflexivity.
  - closed_tests. rewrite dec_enc_varint by exact Hw. destruct ha; reflexivity.
  - closed_tests. rewrite dec_enc_varint by exact Hw. destruct fa; reflexivity.
  - closed_tests. rewrite dec_enc_varint by (rewrite pow64; lia).
    destruct (N.ltb_spec 4294967295 v); [lia|]. destruct mo; reflexivity.
  - closed_tests. destruct Hw as [Ht Hlen]. rewrite consume_bytes_enc by exact Hlen.
    unfold decode_time. rewrite dec_time_loop_items by (auto; lia).
    unfold logical_time. destruct (apply_titems (mk_tst None None) t) as [[s nn]|]; [|reflexivity].
    cbn. destruct s; [|reflexivity]. destruct mt; reflexivity.
  - destruct Hw as [Hn Hu].
    repeat match goal with
    | |- context [n =? ?c] => replace (n =? c) with false by (symmetry; apply N.eqb_neq; cbv; lia)
    end.
    rewrite skip_ufield by exact Hu. reflexivity.
Qed.

Lemma wire_ditem_length i : (1 <= length (wire_ditem i))%nat.
Proof. unfold wire_ditem, enc_tag. rewrite app_length. pose proof (enc_varint_length (ditem_num i * 8 + ditem_typ i)). lia. Qed.

Lemma dec_data_loop_items its : forall fuel st,
  Forall wf_ditem its -> (length (wire_data its) <= fuel)%nat ->
  dec_data_loop fuel st (wire_data its) =
  match apply_ditems st its with Some st' => Ok st' | None => Err EDecode end.
Proof.
  induction its as [|i its IH]; intros fuel st Hw Hf.
  - cbn. destruct fuel; reflexivity.
  - inversion Hw as [|? ? Hi Hr]; subst.
    cbn [wire_data flat_map] in *. fold (wire_data its) in *.
    rewrite app_length in Hf. pose proof (wire_ditem_length i) as Hl.
    destruct fuel as [|f]; [lia|].
    rewrite dec_data_loop_cons.
    2:{ destruct (wire_ditem i) as [|x xs] eqn:Ew; [cbn in Hl; lia|discriminate]. }
    unfold wire_ditem. rewrite <- !app_assoc.
    destruct (ditem_tag_ok i Hi) as [Hn Ht].
    rewrite consume_tag_enc by assumption.
    rewrite dec_data_field_item by exact Hi.
    cbn [apply_ditems]. destruct (apply_ditem st i) as [st'|]; [|reflexivity].
    apply IH; [exact Hr|lia].
Qed.

(* Every presentation with a logical message decodes to that message; every presentation
   without one (a singular field twice, packed and unpacked sizes mixed, no type) is rejected. *)
Theorem decode_presentation its :
  Forall wf_ditem its ->
  decode_data (wire_data its) = match logical_data its with Some m => Ok m | None => Err EDecode end.
Proof.
  intros Hw. unfold decode_data, logical_data.
  rewrite dec_data_loop_items by (auto; lia).
  destruct (apply_ditems dst0 its) as [st|]; [|reflexivity].
  cbn [bind]. unfold finish_data. destruct (st_type st); reflexivity.
Qed.
