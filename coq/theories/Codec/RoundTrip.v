From UV Require Import Base.VarintProofs Codec.WireProofs Codec.Presentation Codec.Proofs.
From Coq Require Import ZifyN ZifyNat ZifyBool.
Local Open Scope N_scope.

Lemma flat_map_map {A B C} (f : A -> B) (g : B -> list C) l : flat_map g (map f l) = flat_map (fun x => g (f x)) l.
Proof. induction l; cbn; congruence. Qed.

Lemma wire_data_app a b : wire_data (a ++ b) = wire_data a ++ wire_data b.
Proof. apply flat_map_app. Qed.

Lemma opt_items_wire {A} (o : option A) (f : A -> list ditem) (g : A -> bytes) :
  (forall a, wire_data (f a) = g a) ->
  wire_data (match o with Some a => f a | None => [] end) = opt_field o g.
Proof. intros H. destruct o; cbn; [apply H|reflexivity]. Qed.

Lemma len_tag_seconds : length (enc_tag UnixTime_SecondsWireNum WT_Varint) = 1%nat. Proof. reflexivity. Qed.
Lemma len_tag_nanos : length (enc_tag UnixTime_FractionalNanosecondsWireNum WT_Fixed32) = 1%nat. Proof. reflexivity. Qed.
Lemma len_fixed32 v : length (enc_fixed32 v) = 4%nat. Proof. reflexivity. Qed.

Ltac wsimp := unfold wire_data, wire_time, wire_ditem, wire_titem; cbn [wire_data flat_map wire_ditem ditem_num ditem_typ ditem_payload app opt_field
                   wire_time wire_titem titem_num titem_typ titem_payload]; rewrite ?app_nil_r.

(* the encoder's output is the wire form of the canonical presentation *)
Lemma encode_is_canon_wire m : encode_data m = wire_data (canon_items m).
Proof.
  unfold encode_data, canon_items.
  change (DType (d_type m) :: ?x) with ([DType (d_type m)] ++ x).
  rewrite !wire_data_app.
  replace (wire_data [DType (d_type m)]) with (enc_tag Data_DataTypeWireNum WT_Varint ++ enc_varint (d_type m)) by (wsimp; reflexivity).
  rewrite <- app_assoc. f_equal. f_equal.
  f_equal; [destruct (d_data m); wsimp; reflexivity|].
  f_equal; [destruct (d_filesize m); wsimp; reflexivity|].
  f_equal; [unfold wire_data; rewrite flat_map_map; reflexivity|].
  f_equal; [destruct (d_hashtype m); wsimp; reflexivity|].
  f_equal; [destruct (d_fanout m); wsimp; reflexivity|].
  f_equal; [destruct (d_mode m) as [v|]; wsimp; [destruct (v =? default_perm (d_type m))|]; wsimp; reflexivity|].
  destruct (d_mtime m) as [t|]; [|reflexivity].
  wsimp. f_equal. unfold enc_bytes, encode_time, canon_time_items, time_size, size_varint.
  destruct (ut_nanos t) as [n|]; wsimp.
  - rewrite <- !app_assoc. f_equal. f_equal. rewrite !app_length, len_tag_seconds, len_tag_nanos, len_fixed32. lia.
  - f_equal. f_equal. rewrite !app_length, len_tag_seconds. lia.
Qed.

Lemma apply_blocksizes l : forall ty da fs acc ha fa mo mt rest,
  apply_ditems (mk_dst ty da fs (BsUnpacked acc) ha fa mo mt) (map DBlockSize l ++ rest) =
  apply_ditems (mk_dst ty da fs (BsUnpacked (rev l ++ acc)) ha fa mo mt) rest.
Proof.
  induction l as [|v l IH]; intros; [reflexivity|].
  cbn [map app apply_ditems apply_ditem]. rewrite IH. cbn [rev]. rewrite <- app_assoc. reflexivity.
Qed.

Lemma apply_blocksizes0 l ty da fs ha fa mo mt rest :
  apply_ditems (mk_dst ty da fs BsNone ha fa mo mt) (map DBlockSize l ++ rest) =
  apply_ditems (mk_dst ty da fs (match l with [] => BsNone | _ => BsUnpacked (rev l) end) ha fa mo mt) rest.
Proof.
  destruct l as [|v l]; [reflexivity|].
  cbn [map app apply_ditems apply_ditem]. rewrite apply_blocksizes. cbn [rev]. reflexivity.
Qed.

Lemma logical_canon_time t : logical_time (canon_time_items t) =
  Some (mk_ut (ut_seconds t) (option_map (fun n => n mod 4294967296) (ut_nanos t))).
Proof. destruct t as [s [n|]]; reflexivity. Qed.

(* the reference reading of this library's encoding is the message (modulo the elided default mode) *)
Theorem logical_canon m : logical_data (canon_items m) = Some (canon m).
Proof.
  destruct m as [ty da fs bs ha fa mo mt]. unfold logical_data, canon_items, canon, dst0.
  cbn [d_type d_data d_filesize d_blocksizes d_hashtype d_fanout d_mode d_mtime].
  cbn [apply_ditems apply_ditem].
  destruct da as [b|]; cbn [app apply_ditems apply_ditem];
  destruct fs as [f|]; cbn [app apply_ditems apply_ditem];
  rewrite apply_blocksizes0;
  destruct ha as [h|]; cbn [app apply_ditems apply_ditem];
  destruct fa as [fo|]; cbn [app apply_ditems apply_ditem];
  (destruct mo as [mv|]; [destruct (mv =? default_perm ty)|]); cbn [app apply_ditems apply_ditem];
  (destruct mt as [t|]; [cbn [app apply_ditems apply_ditem]; rewrite logical_canon_time|]);
  cbn [app apply_ditems apply_ditem finish_data st_type st_data st_fsize st_bs st_hash st_fanout st_mode st_mtime];
  destruct bs as [|x bs']; rewrite ?rev_involutive; reflexivity.
Qed.

Lemma wf_canon_items m : wf_udata m -> Forall wf_ditem (canon_items m).
Proof.
  destruct m as [ty da fs bs ha fa mo mt]. unfold wf_udata, canon_items.
  cbn [d_type d_data d_filesize d_blocksizes d_hashtype d_fanout d_mode d_mtime].
  intros (Hty & Hda & Hfs & Hbs & Hha & Hfa & Hmo & Hmt).
  constructor; [exact Hty|].
  repeat (apply Forall_app; split).
  - destruct da; constructor; [exact Hda|constructor].
  - destruct fs; constructor; [exact Hfs|constructor].
  - induction Hbs; constructor; assumption.
  - destruct ha; constructor; [exact Hha|constructor].
  - destruct fa; constructor; [exact Hfa|constructor].
  - destruct mo as [v|]; [destruct (v =? default_perm ty)|]; constructor; [exact Hmo|constructor].
  - destruct mt as [t|]; constructor; [|constructor].
    cbn [wf_ditem]. split.
    + unfold canon_time_items. constructor; [exact Hmt|].
      destruct (ut_nanos t); constructor; [|constructor]. cbn. apply N.mod_lt. discriminate.
    + unfold canon_time_items, wire_time.
      assert (Hl : forall v, (length (enc_varint v) <= 10)%nat).
      { intros v. unfold enc_varint. generalize 10%nat. intros k; revert v.
        induction k as [|k IH]; intros v; cbn; [lia|]. destruct (v <? 128); cbn; [lia|]. specialize (IH (v / 128)). lia. }
      destruct (ut_nanos t); cbn [flat_map]; unfold wire_titem; cbn [titem_num titem_typ titem_payload];
        rewrite ?app_length, ?app_nil_r; unfold enc_tag; cbn [length enc_fixed32];
        pose proof (Hl (ut_seconds t)); pose proof (Hl (UnixTime_SecondsWireNum * 8 + WT_Varint));
        pose proof (Hl (UnixTime_FractionalNanosecondsWireNum * 8 + WT_Fixed32));
        rewrite ?app_length; cbn [length]; rewrite pow64; lia.
Qed.

(* decode (encode m) = canon m *)
Theorem decode_encode m : wf_udata m -> decode_data (encode_data m) = Ok (canon m).
Proof.
  intros Hw. rewrite encode_is_canon_wire, decode_presentation by (apply wf_canon_items; exact Hw).
  rewrite logical_canon. reflexivity.
Qed.

Lemma default_perm_masked t : N.land (default_perm t) 4095 = default_perm t.
Proof.
  unfold default_perm.
  destruct (t =? Data_File); [reflexivity|].
  destruct (t =? Data_Directory); [reflexivity|].
  destruct (t =? Data_HAMTShard); reflexivity.
Qed.

(* permission bits survive encode/decode although a default mode is elided *)
Theorem perm_roundtrip m : permissions (canon m) = permissions m.
Proof.
  destruct m as [ty da fs bs ha fa mo mt]. unfold permissions, canon.
  cbn [d_mode d_type]. destruct mo as [v|]; [|reflexivity].
  destruct (N.eqb_spec v (default_perm ty)) as [->|Hne]; [|reflexivity].
  symmetry. apply default_perm_masked.
Qed.

(* Permissions() = low twelve bits of the mode, or 0644 / 0755 / 0755 by type *)
Theorem permissions_spec m :
  permissions m = match d_mode m with
                  | Some mode => mode mod 4096
                  | None => if d_type m =? 2 then 420 (* 0644 *)
                            else if (d_type m =? 1) || (d_type m =? 5) then 493 (* 0755 *) else 0
                  end.
Proof.
  unfold permissions. destruct (d_mode m) as [v|].
  - change 4095 with (N.ones 12). rewrite N.land_ones. reflexivity.
  - unfold default_perm.
    change Data_File with 2. change Data_Directory with 1. change Data_HAMTShard with 5.
    change FilePermissionsDefault with 420. change DirectorPerimissionsDefault with 493. change HAMTShardPerimissionsDefault with 493.
    destruct (d_type m =? 2); [reflexivity|]. destruct (d_type m =? 1); [reflexivity|]. destruct (d_type m =? 5); reflexivity.
Qed.

Lemma canon_idem m : canon (canon m) = canon m.
Proof.
  destruct m as [ty da fs bs ha fa mo mt]. unfold canon. cbn [d_type d_data d_filesize d_blocksizes d_hashtype d_fanout d_mode d_mtime].
  destruct mo as [v|]; [destruct (v =? default_perm ty) eqn:E|];
  destruct mt as [[s [n|]]|]; cbn [option_map ut_seconds ut_nanos]; rewrite ?E, ?N.mod_mod by discriminate; reflexivity.
Qed.

(* decoding then re-encoding this library's canonical encoding reproduces the bytes *)
Theorem reencode m : encode_data (canon m) = encode_data m.
Proof.
  destruct m as [ty da fs bs ha fa mo mt]. unfold encode_data, canon.
  cbn [d_type d_data d_filesize d_blocksizes d_hashtype d_fanout d_mode d_mtime].
  destruct mo as [v|]; [destruct (v =? default_perm ty) eqn:E|];
  destruct mt as [[s [n|]]|]; cbn [opt_field option_map ut_seconds ut_nanos]; rewrite ?E;
  unfold encode_time, time_size; cbn [ut_seconds ut_nanos opt_field]; rewrite ?N.mod_mod by discriminate; reflexivity.
Qed.

Theorem decode_reencode m : wf_udata m ->
  match decode_data (encode_data m) with Ok m' => encode_data m' = encode_data m | _ => False end.
Proof. intros Hw. rewrite decode_encode by exact Hw. apply reencode. Qed.

(* non-vacuity: a concrete presentation with permuted fields, an unknown field and a packed run *)
Example presentation_example :
  let its := [DUnknown 15 (UVarint 300); DPacked [1; 300; 18446744073709551615]; DMode 420; DType 2; DFileSize 5;
              DMtime [TNanos 7; TUnknown 9 (UBytes [1;2]); TSeconds 18446744073709551615]] in
  Forall wf_ditem its /\
  logical_data its = Some (mk_ud 2 None (Some 5) [1; 300; 18446744073709551615] None None (Some 420)
                                 (Some (mk_ut 18446744073709551615 (Some 7)))) /\
  decode_data (wire_data its) = Ok (mk_ud 2 None (Some 5) [1; 300; 18446744073709551615] None None (Some 420)
                                 (Some (mk_ut 18446744073709551615 (Some 7)))).
Proof.
  cbv zeta. split; [|split; vm_compute; reflexivity].
  repeat constructor; cbn; try (rewrite pow64); try lia; try reflexivity.
Qed.
