(* data/unmarshal.go: the hand-written protowire field loops.  Every error is the class EDecode;
   panics raised inside qp.BuildMap (duplicate map key, missing required field) are recovered there
   and returned as errors, so they are EDecode too. *)
From UV Require Export Codec.Message.
Local Open Scope N_scope.

(* ---- UnixTime ---- *)
Record tst := mk_tst { ts_seconds : option N; ts_nanos : option N }.

Definition dec_time_field (st : tst) (num typ : N) (r : bytes) : res (tst * bytes) :=
  if num =? UnixTime_SecondsWireNum then
    if negb (typ =? WT_Varint) then Err EDecode else
    match dec_varint r with
    | None => Err EDecode
    | Some (v, r') => match ts_seconds st with
                      | Some _ => Err EDecode   (* repeated map key *)
                      | None => Ok (mk_tst (Some v) (ts_nanos st), r')
                      end
    end
  else if num =? UnixTime_FractionalNanosecondsWireNum then
    if negb (typ =? WT_Fixed32) then Err EDecode else
    match consume_fixed32 r with
    | None => Err EDecode
    | Some (v, r') => match ts_nanos st with
                      | Some _ => Err EDecode
                      | None => Ok (mk_tst (ts_seconds st) (Some v), r')
                      end
    end
  else match skip_field num typ r with
       | None => Err EDecode
       | Some r' => Ok (st, r')
       end.

Fixpoint dec_time_loop (fuel : nat) (st : tst) (bs : bytes) : res tst :=
  match bs with
  | [] => Ok st
  | _ =>
    match fuel with
    | O => Err EOther
    | S f =>
      match consume_tag bs with
      | None => Err EDecode
      | Some (num, typ, r) =>
        match dec_time_field st num typ r with
        | Ok (st', r') => dec_time_loop f st' r'
        | Err e => Err e
        | Panic => Panic
        end
      end
    end
  end.

Definition decode_time (bs : bytes) : res unixtime :=
  st <- dec_time_loop (length bs) (mk_tst None None) bs ;;
  match ts_seconds st with
  | None => Err EDecode              (* missing required field Seconds *)
  | Some s => Ok (mk_ut s (ts_nanos st))
  end.

(* ---- UnixFSData ---- *)
Inductive bsst := BsNone | BsUnpacked (rev_sizes : list N) | BsPacked (sizes : list N).

Record dst := mk_dst {
  st_type : option N; st_data : option bytes; st_fsize : option N; st_bs : bsst;
  st_hash : option N; st_fanout : option N; st_mode : option N; st_mtime : option unixtime
}.
Definition dst0 := mk_dst None None None BsNone None None None None.

(* consumeBlockSizes: exactly `count` varints, nothing left over *)
Fixpoint consume_block_sizes (count : nat) (bs : bytes) : option (list N) :=
  match count with
  | O => match bs with [] => Some [] | _ => None end
  | S c => match dec_varint bs with
           | None => None
           | Some (v, r) => option_map (cons v) (consume_block_sizes c r)
           end
  end.

Definition count_terminators (bs : bytes) : nat := length (filter (fun b => b <? 128) bs).

Definition varint_once (cur : option N) (typ : N) (r : bytes) : res (option N * bytes) :=
  if negb (typ =? WT_Varint) then Err EDecode else
  match dec_varint r with
  | None => Err EDecode
  | Some (v, r') => match cur with Some _ => Err EDecode | None => Ok (Some v, r') end
  end.

Definition dec_data_field (st : dst) (num typ : N) (r : bytes) : res (dst * bytes) :=
  let '(mk_dst ty da fs bs ha fa mo mt) := st in
  if num =? Data_DataTypeWireNum then
    p <- varint_once ty typ r ;; Ok (mk_dst (fst p) da fs bs ha fa mo mt, snd p)
  else if num =? Data_DataWireNum then
    if negb (typ =? WT_Bytes) then Err EDecode else
    match consume_bytes r with
    | None => Err EDecode
    | Some (b, r') => match da with Some _ => Err EDecode | None => Ok (mk_dst ty (Some b) fs bs ha fa mo mt, r') end
    end
  else if num =? Data_FileSizeWireNum then
    p <- varint_once fs typ r ;; Ok (mk_dst ty da (fst p) bs ha fa mo mt, snd p)
  else if num =? Data_BlockSizesWireNum then
    if typ =? WT_Varint then
      match bs with
      | BsPacked _ => Err EDecode                      (* "cannot build blocksizes twice" *)
      | _ =>
        match dec_varint r with
        | None => Err EDecode
        | Some (v, r') =>
          let acc := match bs with BsUnpacked l => l | _ => [] end in
          Ok (mk_dst ty da fs (BsUnpacked (v :: acc)) ha fa mo mt, r')
        end
      end
    else if typ =? WT_Bytes then
      match bs with
      | BsUnpacked _ => Err EDecode                    (* "cannot build blocksizes twice" *)
      | BsPacked _ => match consume_bytes r with None => Err EDecode | Some _ => Err EDecode end  (* repeated map key *)
      | BsNone =>
        match consume_bytes r with
        | None => Err EDecode
        | Some (payload, r') =>
          match consume_block_sizes (count_terminators payload) payload with
          | None => Err EDecode
          | Some l => Ok (mk_dst ty da fs (BsPacked l) ha fa mo mt, r')
          end
        end
      end
    else Err EDecode
  else if num =? Data_HashTypeWireNum then
    p <- varint_once ha typ r ;; Ok (mk_dst ty da fs bs (fst p) fa mo mt, snd p)
  else if num =? Data_FanoutWireNum then
    p <- varint_once fa typ r ;; Ok (mk_dst ty da fs bs ha (fst p) mo mt, snd p)
  else if num =? Data_ModeWireNum then
    if negb (typ =? WT_Varint) then Err EDecode else
    match dec_varint r with
    | None => Err EDecode
    | Some (v, r') =>
      if 4294967295 <? v then Err EDecode               (* "mode should be a 32 bit value" *)
      else match mo with Some _ => Err EDecode | None => Ok (mk_dst ty da fs bs ha fa (Some v) mt, r') end
    end
  else if num =? Data_MtimeWireNum then
    if negb (typ =? WT_Bytes) then Err EDecode else
    match consume_bytes r with
    | None => Err EDecode
    | Some (b, r') =>
      match decode_time b with
      | Ok t => match mt with Some _ => Err EDecode | None => Ok (mk_dst ty da fs bs ha fa mo (Some t), r') end
      | Err e => Err e
      | Panic => Panic
      end
    end
  else match skip_field num typ r with
       | None => Err EDecode
       | Some r' => Ok (st, r')
       end.

Fixpoint dec_data_loop (fuel : nat) (st : dst) (bs : bytes) : res dst :=
  match bs with
  | [] => Ok st
  | _ =>
    match fuel with
    | O => Err EOther
    | S f =>
      match consume_tag bs with
      | None => Err EDecode
      | Some (num, typ, r) =>
        match dec_data_field st num typ r with
        | Ok (st', r') => dec_data_loop f st' r'
        | Err e => Err e
        | Panic => Panic
        end
      end
    end
  end.

Definition finish_data (st : dst) : res udata :=
  match st_type st with
  | None => Err EDecode                  (* missing required field DataType *)
  | Some t =>
    Ok (mk_ud t (st_data st) (st_fsize st)
              (match st_bs st with BsNone => [] | BsUnpacked l => rev l | BsPacked l => l end)
              (st_hash st) (st_fanout st) (st_mode st) (st_mtime st))
  end.

(* DecodeUnixFSData *)
Definition decode_data (bs : bytes) : res udata :=
  st <- dec_data_loop (length bs) dst0 bs ;; finish_data st.

(* ---- UnixFSMetadata ---- *)
Fixpoint dec_meta_loop (fuel : nat) (st : option bytes) (bs : bytes) : res (option bytes) :=
  match bs with
  | [] => Ok st
  | _ =>
    match fuel with
    | O => Err EOther
    | S f =>
      match consume_tag bs with
      | None => Err EDecode
      | Some (num, typ, r) =>
        if num =? Metadata_MimeTypeWireNum then
          if negb (typ =? WT_Bytes) then Err EDecode else
          match consume_bytes r with
          | None => Err EDecode
          | Some (b, r') => match st with Some _ => Err EDecode | None => dec_meta_loop f (Some b) r' end
          end
        else match skip_field num typ r with
             | None => Err EDecode
             | Some r' => dec_meta_loop f st r'
             end
      end
    end
  end.

Definition decode_meta (bs : bytes) : res umeta :=
  st <- dec_meta_loop (length bs) None bs ;; Ok (mk_um st).
