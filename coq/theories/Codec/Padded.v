(* Presentations with non-minimal varints: every wire form in which each varint — field tags, length prefixes,
   integer fields, the elements of a packed run — is written in ANY of its valid n-byte forms (1 <= n <= 10),
   chosen independently at every occurrence, decodes to the logical message of the presentation. *)
From UV Require Import Base.VarintProofs Codec.WireProofs Codec.Presentation Codec.Proofs.
From Coq Require Import ZifyN ZifyNat ZifyBool.
Local Open Scope N_scope.
Ltac Zify.zify_post_hook ::= Z.div_mod_to_equations.

(* bs is a valid encoding of the varint v *)
Inductive venc : N -> bytes -> Prop :=
| venc_n (n : nat) (v : N) : (1 <= n <= 10)%nat -> v < 2 ^ (7 * N.of_nat n) -> v < 2 ^ 64 -> venc v (enc_varint_n n v).

Lemma venc_dec v bs r : venc v bs -> dec_varint (bs ++ r) = Some (v, r).
Proof. intros Hv. destruct Hv as [n v Hn Hv Hv64]. apply dec_padded_varint; assumption. Qed.

Lemma venc_minimal v : v < 2 ^ 64 -> venc v (enc_varint v).
Proof.
  intros Hv. unfold enc_varint.
  destruct (enc_varint_is_some_n 10 v ltac:(lia)) as (n & Hn & Hvn & ->).
  { eapply N.lt_le_trans; [exact Hv|]. apply N.pow_le_mono_r; lia. }
  constructor; [lia|exact Hvn|exact Hv].
Qed.

Lemma enc_varint_n_nonempty n v : (1 <= n)%nat -> enc_varint_n n v <> [].
Proof. destruct n as [|[|n]]; [lia|discriminate|discriminate]. Qed.

Lemma venc_nonempty v bs : venc v bs -> (1 <= length bs)%nat.
Proof.
  intros Hv. destruct Hv as [n v Hn _ _]. pose proof (enc_varint_n_nonempty n v ltac:(lia)) as Hne.
  destruct (enc_varint_n n v); [congruence|cbn; lia].
Qed.

Lemma count_term_n n : forall v, (1 <= n)%nat -> v < 2 ^ (7 * N.of_nat n) -> count_terminators (enc_varint_n n v) = 1%nat.
Proof.
  induction n as [|n IH]; intros v Hn Hv; [lia|]. destruct n as [|n].
  - change (2 ^ (7 * N.of_nat 1)) with 128 in Hv. unfold count_terminators. cbn.
    destruct (N.ltb_spec v 128); [reflexivity|lia].
  - rewrite enc_varint_n_SS. unfold count_terminators in *. cbn [filter].
    destruct (N.ltb_spec (v mod 128 + 128) 128); [lia|].
    apply IH; [lia|].
    replace (7 * N.of_nat (S (S n))) with (7 * N.of_nat (S n) + 7) in Hv by lia.
    rewrite N.pow_add_r in Hv. change (2 ^ 7) with 128 in Hv. apply N.div_lt_upper_bound; lia.
Qed.

Lemma venc_count v bs : venc v bs -> count_terminators bs = 1%nat.
Proof. intros Hv. destruct Hv as [n v Hn Hv _]. apply count_term_n; [lia|exact Hv]. Qed.

(* ---- wire relations ---- *)
Definition tag_enc (num typ : N) (bs : bytes) : Prop := venc (num * 8 + typ) bs.
Inductive bytes_enc (b : bytes) : bytes -> Prop :=
| bytes_enc_intro lb : venc (N.of_nat (length b)) lb -> bytes_enc b (lb ++ b).

(* a packed run: the elements one after the other, each in any valid form *)
Inductive run_enc : list N -> bytes -> Prop :=
| run_nil : run_enc [] []
| run_cons v l b1 b2 : venc v b1 -> run_enc l b2 -> run_enc (v :: l) (b1 ++ b2).

Inductive ufield_enc : ufield -> bytes -> Prop :=
| ue_varint v bs : venc v bs -> ufield_enc (UVarint v) bs
| ue_fixed32 v : v < 4294967296 -> ufield_enc (UFixed32 v) (enc_fixed32 v)
| ue_fixed64 b : length b = 8%nat -> ufield_enc (UFixed64 b) b
| ue_bytes b bs : bytes_enc b bs -> ufield_enc (UBytes b) bs.

Inductive titem_enc : titem -> bytes -> Prop :=
| te_seconds v tb pb : tag_enc UnixTime_SecondsWireNum WT_Varint tb -> venc v pb -> titem_enc (TSeconds v) (tb ++ pb)
| te_nanos v tb : tag_enc UnixTime_FractionalNanosecondsWireNum WT_Fixed32 tb -> v < 4294967296 -> titem_enc (TNanos v) (tb ++ enc_fixed32 v)
| te_unknown n u tb pb : 2 < n <= 536870911 -> tag_enc n (ufield_typ u) tb -> ufield_enc u pb -> titem_enc (TUnknown n u) (tb ++ pb).

Inductive time_enc : list titem -> bytes -> Prop :=
| time_nil : time_enc [] []
| time_cons i r b1 b2 : titem_enc i b1 -> time_enc r b2 -> time_enc (i :: r) (b1 ++ b2).

Inductive ditem_payload_enc : ditem -> bytes -> Prop :=
| de_type v pb : venc v pb -> ditem_payload_enc (DType v) pb
| de_data b pb : bytes_enc b pb -> ditem_payload_enc (DData b) pb
| de_filesize v pb : venc v pb -> ditem_payload_enc (DFileSize v) pb
| de_blocksize v pb : venc v pb -> ditem_payload_enc (DBlockSize v) pb
| de_packed l run pb : run_enc l run -> bytes_enc run pb -> ditem_payload_enc (DPacked l) pb
| de_hashtype v pb : venc v pb -> ditem_payload_enc (DHashType v) pb
| de_fanout v pb : venc v pb -> ditem_payload_enc (DFanout v) pb
| de_mode v pb : v < 4294967296 -> venc v pb -> ditem_payload_enc (DMode v) pb
| de_mtime t tw pb : time_enc t tw -> bytes_enc tw pb -> ditem_payload_enc (DMtime t) pb
| de_unknown n u pb : 8 < n <= 536870911 -> ufield_enc u pb -> ditem_payload_enc (DUnknown n u) pb.

Inductive ditem_enc (i : ditem) : bytes -> Prop :=
| ditem_enc_intro tb pb : tag_enc (ditem_num i) (ditem_typ i) tb -> ditem_payload_enc i pb -> ditem_enc i (tb ++ pb).

Inductive data_enc : list ditem -> bytes -> Prop :=
| data_nil : data_enc [] []
| data_cons i r b1 b2 : ditem_enc i b1 -> data_enc r b2 -> data_enc (i :: r) (b1 ++ b2).

(* ---- consuming ---- *)
Lemma consume_tag_venc num typ tb r :
  1 <= num <= 2147483647 -> typ < 8 -> tag_enc num typ tb -> consume_tag (tb ++ r) = Some (num, typ, r).
Proof.
  intros Hn Ht Hv. unfold consume_tag, tag_enc in *. rewrite (venc_dec _ _ r Hv).
  replace ((num * 8 + typ) / 8) with num by lia.
  replace ((num * 8 + typ) mod 8) with typ by lia.
  destruct (N.ltb_spec 2147483647 num); [lia|].
  destruct (N.ltb_spec num 1); [lia|]. reflexivity.
Qed.

Lemma consume_bytes_venc b bs r : bytes_enc b bs -> consume_bytes (bs ++ r) = Some (b, r).
Proof.
  intros Hb. destruct Hb as [lb Hl]. unfold consume_bytes. rewrite <- app_assoc, (venc_dec _ _ (b ++ r) Hl). apply take_n_app.
Qed.

Lemma skip_ufield_enc num u pb r : ufield_enc u pb -> skip_field num (ufield_typ u) (pb ++ r) = Some r.
Proof.
  intros Hu. unfold skip_field. cbn [consume_field_value].
  destruct Hu as [v bs Hv|v Hv|b Hb|b bs Hb]; cbn [ufield_typ]; closed_tests.
  - rewrite (venc_dec _ _ r Hv). reflexivity.
  - rewrite consume_fixed32_enc by exact Hv. reflexivity.
  - unfold consume_fixed64. replace 8 with (N.of_nat (length b)) by lia. rewrite take_n_app. reflexivity.
  - rewrite (consume_bytes_venc _ _ r Hb). reflexivity.
Qed.

(* ---- timestamps ---- *)
Lemma titem_enc_nonempty i bs : titem_enc i bs -> bs <> [].
Proof.
  intros Hi. destruct Hi as [v tb pb Ht _|v tb Ht _|n u tb pb _ Ht _]; pose proof (venc_nonempty _ _ Ht) as Hl;
    destruct tb; cbn in Hl; try lia; discriminate.
Qed.

Lemma dec_time_field_enc st i tb_pb r : titem_enc i tb_pb ->
  match consume_tag (tb_pb ++ r) with
  | Some (num, typ, r') => dec_time_field st num typ r'
  | None => Err EDecode
  end = match apply_titem st i with Some st' => Ok (st', r) | None => Err EDecode end.
Proof.
  intros Hi. destruct Hi as [v tb pb Ht Hv|v tb Ht Hv|n u tb pb Hn Ht Hu]; rewrite <- app_assoc.
  - rewrite (consume_tag_venc UnixTime_SecondsWireNum WT_Varint tb (pb ++ r) ltac:(cbv; split; discriminate) ltac:(reflexivity) Ht).
    unfold dec_time_field. cbn [apply_titem]. closed_tests. rewrite (venc_dec _ _ r Hv). destruct (ts_seconds st); reflexivity.
  - rewrite (consume_tag_venc UnixTime_FractionalNanosecondsWireNum WT_Fixed32 tb (enc_fixed32 v ++ r) ltac:(cbv; split; discriminate) ltac:(reflexivity) Ht).
    unfold dec_time_field. cbn [apply_titem]. closed_tests. rewrite consume_fixed32_enc by exact Hv. destruct (ts_nanos st); reflexivity.
  - rewrite (consume_tag_venc n (ufield_typ u) tb (pb ++ r) ltac:(lia) (ufield_typ_lt8 u) Ht).
    unfold dec_time_field. cbn [apply_titem].
    replace (n =? UnixTime_SecondsWireNum) with false by (symmetry; apply N.eqb_neq; cbv [UnixTime_SecondsWireNum]; lia).
    replace (n =? UnixTime_FractionalNanosecondsWireNum) with false by (symmetry; apply N.eqb_neq; cbv [UnixTime_FractionalNanosecondsWireNum]; lia).
    rewrite (skip_ufield_enc n u pb r Hu). reflexivity.
Qed.

Lemma dec_time_loop_enc its : forall w fuel st,
  time_enc its w -> (length w <= fuel)%nat ->
  dec_time_loop fuel st w = match apply_titems st its with Some st' => Ok st' | None => Err EDecode end.
Proof.
  induction its as [|i its IH]; intros w fuel st Hw Hf.
  - inversion Hw; subst. cbn. destruct fuel; reflexivity.
  - inversion Hw as [|? ? b1 b2 Hi Hr]; subst.
    pose proof (titem_enc_nonempty i b1 Hi) as Hne. rewrite app_length in Hf.
    destruct fuel as [|f]; [destruct b1; [congruence|cbn in Hf; lia]|].
    rewrite dec_time_loop_cons by (destruct b1; [congruence|discriminate]).
    pose proof (dec_time_field_enc st i b1 b2 Hi) as Hstep.
    destruct (consume_tag (b1 ++ b2)) as [[[num typ] r']|]; cbn [apply_titems].
    + rewrite Hstep. destruct (apply_titem st i) as [st'|]; [|reflexivity].
      apply IH; [exact Hr|]. destruct b1; [congruence|cbn in Hf; lia].
    + destruct (apply_titem st i); [discriminate|reflexivity].
Qed.

Theorem decode_time_padded its w t :
  time_enc its w -> logical_time its = Some t -> decode_time w = Ok t.
Proof.
  intros Hw Hl. unfold decode_time, logical_time in *.
  rewrite (dec_time_loop_enc its w _ _ Hw) by lia.
  destruct (apply_titems (mk_tst None None) its) as [[s n]|]; [|discriminate].
  cbn. destruct s; [|discriminate]. inversion Hl. reflexivity.
Qed.

(* ---- packed runs ---- *)
Lemma run_enc_count l run : run_enc l run -> count_terminators run = length l.
Proof.
  induction 1 as [|v l b1 b2 Hv _ IH]; [reflexivity|].
  rewrite count_term_app, (venc_count _ _ Hv), IH. reflexivity.
Qed.

Lemma run_enc_consume l run : run_enc l run -> consume_block_sizes (length l) run = Some l.
Proof.
  induction 1 as [|v l b1 b2 Hv _ IH]; [reflexivity|].
  cbn [length consume_block_sizes]. rewrite (venc_dec _ _ b2 Hv), IH. reflexivity.
Qed.

(* ---- Data ---- *)
Lemma ditem_enc_nonempty i bs : ditem_enc i bs -> bs <> [].
Proof.
  intros Hi. destruct Hi as [tb pb Ht _]. pose proof (venc_nonempty _ _ Ht) as Hl. destruct tb; cbn in Hl; [lia|discriminate].
Qed.

Lemma ditem_tag_ok' i pb : ditem_payload_enc i pb -> 1 <= ditem_num i <= 2147483647 /\ ditem_typ i < 8.
Proof.
  intros Hp. destruct i as [v|b|v|v|l|v|v|v|t|n u]; cbn [ditem_num ditem_typ].
  10:{ inversion Hp; subst. split; [lia|apply ufield_typ_lt8]. }
  all: split; [cbv; split; discriminate|reflexivity].
Qed.

Lemma dec_data_field_enc st i pb r : ditem_payload_enc i pb ->
  dec_data_field st (ditem_num i) (ditem_typ i) (pb ++ r) =
  match apply_ditem st i with Some st' => Ok (st', r) | None => Err EDecode end.
Proof.
  intros Hp. destruct st as [ty da fs bs ha fa mo mt]. unfold dec_data_field, varint_once.
  destruct Hp as [v pb Hv|b pb Hb|v pb Hv|v pb Hv|l run pb Hrun Hb|v pb Hv|v pb Hv|v pb Hm Hv|t tw pb Ht Hb|n u pb Hn Hu];
    cbn [ditem_num ditem_typ apply_ditem].
  - closed_tests. rewrite (venc_dec _ _ r Hv). destruct ty; reflexivity.
  - closed_tests. rewrite (consume_bytes_venc _ _ r Hb). destruct da; reflexivity.
  - closed_tests. rewrite (venc_dec _ _ r Hv). destruct fs; reflexivity.
  - closed_tests. destruct bs; try reflexivity; rewrite (venc_dec _ _ r Hv); reflexivity.
  - closed_tests. rewrite (consume_bytes_venc _ _ r Hb).
    destruct bs; try reflexivity.
    rewrite (run_enc_count _ _ Hrun), (run_enc_consume _ _ Hrun). reflexivity.
  - closed_tests. rewrite (venc_dec _ _ r Hv). destruct ha; reflexivity.
  - closed_tests. rewrite (venc_dec _ _ r Hv). destruct fa; reflexivity.
  - closed_tests. rewrite (venc_dec _ _ r Hv).
    destruct (N.ltb_spec 4294967295 v); [lia|]. destruct mo; reflexivity.
  - closed_tests. rewrite (consume_bytes_venc _ _ r Hb).
    unfold decode_time. rewrite (dec_time_loop_enc t tw _ _ Ht) by lia.
    unfold logical_time. destruct (apply_titems (mk_tst None None) t) as [[s nn]|]; [|reflexivity].
    cbn. destruct s; [|reflexivity]. destruct mt; reflexivity.
  - repeat match goal with
    | |- context [n =? ?c] => replace (n =? c) with false by (symmetry; apply N.eqb_neq; cbv; lia)
    end.
    rewrite (skip_ufield_enc n u pb r Hu). reflexivity.
Qed.

Lemma dec_data_loop_enc its : forall w fuel st,
  data_enc its w -> (length w <= fuel)%nat ->
  dec_data_loop fuel st w = match apply_ditems st its with Some st' => Ok st' | None => Err EDecode end.
Proof.
  induction its as [|i its IH]; intros w fuel st Hw Hf.
  - inversion Hw; subst. cbn. destruct fuel; reflexivity.
  - inversion Hw as [|? ? b1 b2 Hi Hr]; subst.
    pose proof (ditem_enc_nonempty i b1 Hi) as Hne. rewrite app_length in Hf.
    destruct fuel as [|f]; [destruct b1; [congruence|cbn in Hf; lia]|].
    rewrite dec_data_loop_cons by (destruct b1; [congruence|discriminate]).
    destruct Hi as [tb pb Ht Hp]. rewrite <- app_assoc.
    destruct (ditem_tag_ok' i pb Hp) as [Hn Hty].
    rewrite (consume_tag_venc _ _ tb _ Hn Hty Ht).
    rewrite (dec_data_field_enc st i pb b2 Hp).
    cbn [apply_ditems]. destruct (apply_ditem st i) as [st'|]; [|reflexivity].
    apply IH; [exact Hr|]. pose proof (venc_nonempty _ _ Ht). rewrite app_length in Hf. lia.
Qed.

(* Every padded presentation with a logical message decodes to that message; one without is rejected. *)
Theorem decode_padded_presentation its w :
  data_enc its w ->
  decode_data w = match logical_data its with Some m => Ok m | None => Err EDecode end.
Proof.
  intros Hw. unfold decode_data, logical_data.
  rewrite (dec_data_loop_enc its w _ _ Hw) by lia.
  destruct (apply_ditems dst0 its) as [st|]; [|reflexivity].
  cbn [bind]. unfold finish_data. destruct (st_type st); reflexivity.
Qed.

(* non-vacuity: a message whose tag, length and integer varints are all padded *)
Example padded_presentation_example :
  let w := [136; 128; 0;          (* tag 1/varint as 3 bytes *)
            130; 0;               (* type = 2 (File) as 2 bytes *)
            152; 0;               (* tag 3/varint as 2 bytes *)
            133; 128; 128; 0;     (* filesize = 5 as 4 bytes *)
            18;                   (* tag 2/bytes, minimal *)
            130; 128; 0;          (* length 2 as 3 bytes *)
            7; 9] in
  data_enc [DType 2; DFileSize 5; DData [7; 9]] w
  /\ decode_data w = Ok (mk_ud 2 (Some [7; 9]) (Some 5) [] None None None None).
Proof.
  cbv zeta. split; [|vm_compute; reflexivity].
  change [136; 128; 0; 130; 0; 152; 0; 133; 128; 128; 0; 18; 130; 128; 0; 7; 9]
    with (([136; 128; 0] ++ [130; 0]) ++ ([152; 0] ++ [133; 128; 128; 0]) ++ ([18] ++ ([130; 128; 0] ++ [7; 9])) ++ []).
  constructor; [constructor; [apply (venc_n 3 8); [lia|reflexivity|reflexivity]|constructor; apply (venc_n 2 2); [lia|reflexivity|reflexivity]]|].
  constructor; [constructor; [apply (venc_n 2 24); [lia|reflexivity|reflexivity]|constructor; apply (venc_n 4 5); [lia|reflexivity|reflexivity]]|].
  constructor; [constructor; [apply (venc_n 1 18); [lia|reflexivity|reflexivity]|constructor; apply (bytes_enc_intro [7; 9] [130; 128; 0]); apply (venc_n 3 2); [lia|reflexivity|reflexivity]]|].
  constructor.
Qed.

(* the minimal presentations of Presentation.v are instances *)
Lemma bytes_enc_minimal b : N.of_nat (length b) < 2 ^ 64 -> bytes_enc b (enc_bytes b).
Proof. intros Hl. unfold enc_bytes. constructor. apply venc_minimal. exact Hl. Qed.

Lemma ufield_enc_minimal u : wf_ufield u -> ufield_enc u (ufield_payload u).
Proof.
  destruct u as [v|v|b|b]; cbn [wf_ufield ufield_payload]; intros Hw.
  - constructor. apply venc_minimal. exact Hw.
  - constructor. exact Hw.
  - constructor. exact Hw.
  - constructor. apply bytes_enc_minimal. exact Hw.
Qed.

Lemma tag_enc_minimal num typ : 1 <= num <= 2147483647 -> typ < 8 -> tag_enc num typ (enc_tag num typ).
Proof. intros Hn Ht. unfold tag_enc, enc_tag. apply venc_minimal. change (2 ^ 64) with 18446744073709551616. lia. Qed.

Lemma time_enc_minimal t : Forall wf_titem t -> time_enc t (wire_time t).
Proof.
  induction 1 as [|i r Hi _ IH]; [constructor|]. cbn [wire_time flat_map]. constructor; [|exact IH].
  unfold wire_titem. destruct (titem_tag_ok i Hi) as [Hn Ht].
  destruct i as [v|v|n u]; cbn [titem_num titem_typ titem_payload wf_titem] in *.
  - constructor; [apply tag_enc_minimal; assumption|apply venc_minimal; exact Hi].
  - constructor; [apply tag_enc_minimal; assumption|exact Hi].
  - destruct Hi as [Hnn Hu]. constructor; [exact Hnn|apply tag_enc_minimal; assumption|apply ufield_enc_minimal; exact Hu].
Qed.

Lemma run_enc_minimal l : Forall (fun v => v < 2 ^ 64) l -> run_enc l (flat_map enc_varint l).
Proof. induction 1 as [|v l Hv _ IH]; [constructor|]. cbn [flat_map]. constructor; [apply venc_minimal; exact Hv|exact IH]. Qed.

Theorem wire_data_is_enc its : Forall wf_ditem its -> data_enc its (wire_data its).
Proof.
  induction 1 as [|i r Hi _ IH]; [constructor|]. cbn [wire_data flat_map]. constructor; [|exact IH].
  unfold wire_ditem. destruct (ditem_tag_ok i Hi) as [Hn Ht].
  constructor; [apply tag_enc_minimal; assumption|].
  destruct i as [v|b|v|v|l|v|v|v|t|n u]; cbn [ditem_payload wf_ditem] in *.
  - constructor. apply venc_minimal. exact Hi.
  - constructor. apply bytes_enc_minimal. exact Hi.
  - constructor. apply venc_minimal. exact Hi.
  - constructor. apply venc_minimal. exact Hi.
  - destruct Hi as [Hl Hlen]. apply (de_packed l (flat_map enc_varint l)); [apply run_enc_minimal; exact Hl|apply bytes_enc_minimal; exact Hlen].
  - constructor. apply venc_minimal. exact Hi.
  - constructor. apply venc_minimal. exact Hi.
  - constructor; [exact Hi|apply venc_minimal; change (2 ^ 64) with 18446744073709551616; lia].
  - destruct Hi as [Ht' Hlen]. apply (de_mtime t (wire_time t)); [apply time_enc_minimal; exact Ht'|apply bytes_enc_minimal; exact Hlen].
  - destruct Hi as [Hnn Hu]. constructor; [exact Hnn|apply ufield_enc_minimal; exact Hu].
Qed.

(* ---- UnixFSMetadata: the mime type at most once, unknown fields anywhere, any varint widths ---- *)
Inductive mitem := MMime (b : bytes) | MUnknown (num : N) (u : ufield).

Inductive mitem_enc : mitem -> bytes -> Prop :=
| me_mime b tb pb : tag_enc Metadata_MimeTypeWireNum WT_Bytes tb -> bytes_enc b pb -> mitem_enc (MMime b) (tb ++ pb)
| me_unknown n u tb pb : 1 < n <= 536870911 -> tag_enc n (ufield_typ u) tb -> ufield_enc u pb -> mitem_enc (MUnknown n u) (tb ++ pb).

Inductive meta_enc : list mitem -> bytes -> Prop :=
| meta_nil : meta_enc [] []
| meta_cons i r b1 b2 : mitem_enc i b1 -> meta_enc r b2 -> meta_enc (i :: r) (b1 ++ b2).

Definition apply_mitem (st : option bytes) (i : mitem) : option (option bytes) :=
  match i with
  | MMime b => match st with Some _ => None | None => Some (Some b) end
  | MUnknown _ _ => Some st
  end.
Fixpoint apply_mitems (st : option bytes) (its : list mitem) : option (option bytes) :=
  match its with
  | [] => Some st
  | i :: r => match apply_mitem st i with Some st' => apply_mitems st' r | None => None end
  end.

Lemma mitem_enc_nonempty i bs : mitem_enc i bs -> bs <> [].
Proof.
  intros Hi. destruct Hi as [b tb pb Ht _|n u tb pb _ Ht _]; pose proof (venc_nonempty _ _ Ht) as Hl;
    destruct tb; cbn in Hl; try lia; discriminate.
Qed.

Lemma dec_meta_loop_enc its : forall w fuel st,
  meta_enc its w -> (length w <= fuel)%nat ->
  dec_meta_loop fuel st w = match apply_mitems st its with Some st' => Ok st' | None => Err EDecode end.
Proof.
  induction its as [|i its IH]; intros w fuel st Hw Hf.
  - inversion Hw; subst. cbn. destruct fuel; reflexivity.
  - inversion Hw as [|? ? b1 b2 Hi Hr]; subst.
    pose proof (mitem_enc_nonempty i b1 Hi) as Hne. rewrite app_length in Hf.
    assert (Hl1 : (1 <= length b1)%nat) by (destruct b1; [congruence|cbn; lia]).
    destruct fuel as [|f]; [lia|].
    assert (Hunf : forall bs, bs <> [] -> dec_meta_loop (S f) st bs =
              match consume_tag bs with
              | None => Err EDecode
              | Some (num, typ, r) =>
                if num =? Metadata_MimeTypeWireNum then
                  if negb (typ =? WT_Bytes) then Err EDecode else
                  match consume_bytes r with
                  | None => Err EDecode
                  | Some (b, r') => match st with Some _ => Err EDecode | None => dec_meta_loop f (Some b) r' end
                  end
                else match skip_field num typ r with
                     | None => Err EDecode
                     | Some r' => dec_meta_loop f st r'
                     end
              end) by (intros bs Hb; destruct bs; [congruence|reflexivity]).
    rewrite Hunf by (destruct b1; [congruence|discriminate]).
    destruct Hi as [b tb pb Ht Hb|n u tb pb Hn Ht Hu]; rewrite <- app_assoc.
    + rewrite (consume_tag_venc Metadata_MimeTypeWireNum WT_Bytes tb (pb ++ b2) ltac:(cbv; split; discriminate) ltac:(reflexivity) Ht).
      closed_tests. rewrite (consume_bytes_venc _ _ b2 Hb). cbn [apply_mitems apply_mitem].
      destruct st; [reflexivity|]. apply IH; [exact Hr|]. lia.
    + rewrite (consume_tag_venc n (ufield_typ u) tb (pb ++ b2) ltac:(lia) (ufield_typ_lt8 u) Ht).
      replace (n =? Metadata_MimeTypeWireNum) with false by (symmetry; apply N.eqb_neq; cbv [Metadata_MimeTypeWireNum]; lia).
      rewrite (skip_ufield_enc n u pb b2 Hu). cbn [apply_mitems apply_mitem].
      apply IH; [exact Hr|]. lia.
Qed.

Theorem decode_meta_presentation its w :
  meta_enc its w ->
  decode_meta w = match apply_mitems None its with Some st => Ok (mk_um st) | None => Err EDecode end.
Proof.
  intros Hw. unfold decode_meta. rewrite (dec_meta_loop_enc its w _ _ Hw) by lia.
  destruct (apply_mitems None its); reflexivity.
Qed.
