(* C13 (decoders): for arbitrary bytes the three decoders return a value or an error, never a panic *)
From UV Require Import Codec.Decode.
Local Open Scope N_scope.

Lemma dec_time_field_no_panic st num typ r : dec_time_field st num typ r <> Panic.
Proof.
  unfold dec_time_field.
  repeat match goal with
  | |- context [if ?c then _ else _] => destruct c
  | |- context [match ?c with _ => _ end] => destruct c
  end; discriminate.
Qed.

Lemma dec_time_loop_no_panic fuel : forall st bs, dec_time_loop fuel st bs <> Panic.
Proof.
  induction fuel as [|f IH]; intros st bs; destruct bs as [|b bs]; cbn; try discriminate.
  destruct (consume_tag (b :: bs)) as [[[num typ] r]|]; [|discriminate].
  pose proof (dec_time_field_no_panic st num typ r).
  destruct (dec_time_field st num typ r) as [[st' r']| |]; [apply IH|discriminate|congruence].
Qed.

Lemma decode_time_no_panic bs : decode_time bs <> Panic.
Proof.
  unfold decode_time. pose proof (dec_time_loop_no_panic (length bs) (mk_tst None None) bs).
  destruct (dec_time_loop (length bs) (mk_tst None None) bs) as [st| |]; cbn; [destruct (ts_seconds st)|..]; congruence.
Qed.

Lemma dec_data_field_no_panic st num typ r : dec_data_field st num typ r <> Panic.
Proof.
  destruct st as [ty da fs bs ha fa mo mt]. unfold dec_data_field, varint_once.
  pose proof (decode_time_no_panic) as Ht.
  repeat match goal with
  | |- context [decode_time ?x] => let H := fresh in pose proof (Ht x) as H; destruct (decode_time x); [| |congruence]
  | |- context [if ?c then _ else _] => destruct c
  | |- context [match ?c with _ => _ end] => destruct c
  end; cbn; try discriminate.
Qed.

Lemma dec_data_loop_no_panic fuel : forall st bs, dec_data_loop fuel st bs <> Panic.
Proof.
  induction fuel as [|f IH]; intros st bs; destruct bs as [|b bs]; cbn; try discriminate.
  destruct (consume_tag (b :: bs)) as [[[num typ] r]|]; [|discriminate].
  pose proof (dec_data_field_no_panic st num typ r).
  destruct (dec_data_field st num typ r) as [[st' r']| |]; [apply IH|discriminate|congruence].
Qed.

Theorem decode_data_no_panic bs : decode_data bs <> Panic.
Proof.
  unfold decode_data. pose proof (dec_data_loop_no_panic (length bs) dst0 bs).
  destruct (dec_data_loop (length bs) dst0 bs) as [st| |]; cbn; [unfold finish_data; destruct (st_type st)|..]; congruence.
Qed.

Lemma dec_meta_loop_no_panic fuel : forall st bs, dec_meta_loop fuel st bs <> Panic.
Proof.
  induction fuel as [|f IH]; intros st bs; destruct bs as [|b bs]; cbn; try discriminate.
  destruct (consume_tag (b :: bs)) as [[[num typ] r]|]; [|discriminate].
  repeat match goal with
  | |- context [if ?c then _ else _] => destruct c
  | |- context [match ?c with _ => _ end] => destruct c
  end; try discriminate; apply IH.
Qed.

Theorem decode_meta_no_panic bs : decode_meta bs <> Panic.
Proof.
  unfold decode_meta. pose proof (dec_meta_loop_no_panic (length bs) None bs).
  destruct (dec_meta_loop (length bs) None bs); cbn; congruence.
Qed.
