From UV Require Import Base.Wire Base.VarintProofs.
From Coq Require Import ZifyN ZifyNat ZifyBool.
Local Open Scope N_scope.
Ltac Zify.zify_post_hook ::= Z.div_mod_to_equations.

Lemma consume_tag_enc num typ r :
  1 <= num <= 2147483647 -> typ < 8 ->
  consume_tag (enc_tag num typ ++ r) = Some (num, typ, r).
Proof.
  intros Hn Ht. unfold consume_tag, enc_tag.
  rewrite dec_enc_varint by (change (2 ^ 64) with 18446744073709551616; lia).
  replace ((num * 8 + typ) / 8) with num by lia.
  replace ((num * 8 + typ) mod 8) with typ by lia.
  destruct (N.ltb_spec 2147483647 num); [lia|].
  destruct (N.ltb_spec num 1); [lia|]. reflexivity.
Qed.

Lemma take_n_app (b r : bytes) : take_n (N.of_nat (length b)) (b ++ r) = Some (b, r).
Proof.
  unfold take_n. rewrite app_length.
  destruct (N.ltb_spec (N.of_nat (length b + length r)) (N.of_nat (length b))); [lia|].
  rewrite Nat2N.id, firstn_app, skipn_app, Nat.sub_diag, firstn_all, skipn_all. cbn.
  rewrite app_nil_r. reflexivity.
Qed.

Lemma consume_bytes_enc (b r : bytes) :
  N.of_nat (length b) < 2 ^ 64 -> consume_bytes (enc_bytes b ++ r) = Some (b, r).
Proof.
  intros Hl. unfold consume_bytes, enc_bytes. rewrite <- app_assoc, dec_enc_varint by exact Hl.
  apply take_n_app.
Qed.

Lemma consume_fixed32_enc v r : v < 4294967296 -> consume_fixed32 (enc_fixed32 v ++ r) = Some (v, r).
Proof.
  intros Hv. unfold consume_fixed32, enc_fixed32. cbn [app]. f_equal. f_equal. lia.
Qed.

Lemma enc_varint_nonempty v : enc_varint v <> [].
Proof. apply enc_varint_aux_nonempty. lia. Qed.

Lemma enc_tag_nonempty num typ : enc_tag num typ <> [].
Proof. apply enc_varint_nonempty. Qed.

Lemma enc_varint_length v : (1 <= length (enc_varint v))%nat.
Proof. pose proof (enc_varint_nonempty v). destruct (enc_varint v); [congruence|cbn; lia]. Qed.
