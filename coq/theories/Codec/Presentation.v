(* Presentations: the wire forms a conformant protobuf encoder may emit for a UnixFS message —
   fields in any order, block sizes as separate varint fields or as one packed run, unknown fields
   interleaved.  `logical_*` is the logical content of a presentation (the reference reading). *)
From UV Require Export Codec.Decode Codec.Encode.
Local Open Scope N_scope.

(* unknown field payloads (groups are exercised by the correspondence only) *)
Inductive ufield := UVarint (v : N) | UFixed32 (v : N) | UFixed64 (b : bytes) | UBytes (b : bytes).

Definition ufield_typ (u : ufield) : N :=
  match u with UVarint _ => WT_Varint | UFixed32 _ => WT_Fixed32 | UFixed64 _ => WT_Fixed64 | UBytes _ => WT_Bytes end.
Definition ufield_payload (u : ufield) : bytes :=
  match u with UVarint v => enc_varint v | UFixed32 v => enc_fixed32 v | UFixed64 b => b | UBytes b => enc_bytes b end.
Definition wf_ufield (u : ufield) : Prop :=
  match u with
  | UVarint v => v < 2 ^ 64
  | UFixed32 v => v < 4294967296
  | UFixed64 b => length b = 8%nat
  | UBytes b => N.of_nat (length b) < 2 ^ 64
  end.

(* ---- timestamps ---- *)
Inductive titem := TSeconds (v : N) | TNanos (v : N) | TUnknown (num : N) (u : ufield).

Definition titem_num (i : titem) : N :=
  match i with TSeconds _ => UnixTime_SecondsWireNum | TNanos _ => UnixTime_FractionalNanosecondsWireNum | TUnknown n _ => n end.
Definition titem_typ (i : titem) : N :=
  match i with TSeconds _ => WT_Varint | TNanos _ => WT_Fixed32 | TUnknown _ u => ufield_typ u end.
Definition titem_payload (i : titem) : bytes :=
  match i with TSeconds v => enc_varint v | TNanos v => enc_fixed32 v | TUnknown _ u => ufield_payload u end.
Definition wire_titem (i : titem) : bytes := enc_tag (titem_num i) (titem_typ i) ++ titem_payload i.
Definition wire_time (its : list titem) : bytes := flat_map wire_titem its.

Definition wf_titem (i : titem) : Prop :=
  match i with
  | TSeconds v => v < 2 ^ 64
  | TNanos v => v < 4294967296
  | TUnknown n u => 2 < n <= 536870911 /\ wf_ufield u
  end.

Definition apply_titem (st : tst) (i : titem) : option tst :=
  match i with
  | TSeconds v => match ts_seconds st with Some _ => None | None => Some (mk_tst (Some v) (ts_nanos st)) end
  | TNanos v => match ts_nanos st with Some _ => None | None => Some (mk_tst (ts_seconds st) (Some v)) end
  | TUnknown _ _ => Some st
  end.

Fixpoint apply_titems (st : tst) (its : list titem) : option tst :=
  match its with
  | [] => Some st
  | i :: r => match apply_titem st i with Some st' => apply_titems st' r | None => None end
  end.

(* logical content: each known field at most once, seconds present *)
Definition logical_time (its : list titem) : option unixtime :=
  match apply_titems (mk_tst None None) its with
  | Some (mk_tst (Some s) n) => Some (mk_ut s n)
  | _ => None
  end.

(* ---- Data ---- *)
Inductive ditem :=
| DType (v : N) | DData (b : bytes) | DFileSize (v : N)
| DBlockSize (v : N)           (* one unpacked element *)
| DPacked (l : list N)         (* one packed run *)
| DHashType (v : N) | DFanout (v : N) | DMode (v : N)
| DMtime (t : list titem)
| DUnknown (num : N) (u : ufield).

Definition ditem_num (i : ditem) : N :=
  match i with
  | DType _ => Data_DataTypeWireNum | DData _ => Data_DataWireNum | DFileSize _ => Data_FileSizeWireNum
  | DBlockSize _ | DPacked _ => Data_BlockSizesWireNum
  | DHashType _ => Data_HashTypeWireNum | DFanout _ => Data_FanoutWireNum | DMode _ => Data_ModeWireNum
  | DMtime _ => Data_MtimeWireNum | DUnknown n _ => n
  end.
Definition ditem_typ (i : ditem) : N :=
  match i with
  | DType _ | DFileSize _ | DBlockSize _ | DHashType _ | DFanout _ | DMode _ => WT_Varint
  | DData _ | DPacked _ | DMtime _ => WT_Bytes
  | DUnknown _ u => ufield_typ u
  end.
Definition ditem_payload (i : ditem) : bytes :=
  match i with
  | DType v | DFileSize v | DBlockSize v | DHashType v | DFanout v | DMode v => enc_varint v
  | DData b => enc_bytes b
  | DPacked l => enc_bytes (flat_map enc_varint l)
  | DMtime t => enc_bytes (wire_time t)
  | DUnknown _ u => ufield_payload u
  end.
Definition wire_ditem (i : ditem) : bytes := enc_tag (ditem_num i) (ditem_typ i) ++ ditem_payload i.
Definition wire_data (its : list ditem) : bytes := flat_map wire_ditem its.

Definition wf_ditem (i : ditem) : Prop :=
  match i with
  | DType v | DFileSize v | DBlockSize v | DHashType v | DFanout v => v < 2 ^ 64
  | DMode v => v < 4294967296
  | DData b => N.of_nat (length b) < 2 ^ 64
  | DPacked l => Forall (fun v => v < 2 ^ 64) l /\ N.of_nat (length (flat_map enc_varint l)) < 2 ^ 64
  | DMtime t => Forall wf_titem t /\ N.of_nat (length (wire_time t)) < 2 ^ 64
  | DUnknown n u => 8 < n <= 536870911 /\ wf_ufield u
  end.

Definition apply_ditem (st : dst) (i : ditem) : option dst :=
  let '(mk_dst ty da fs bs ha fa mo mt) := st in
  let once {A} (cur : option A) (v : A) (k : option A -> dst) : option dst :=
      match cur with Some _ => None | None => Some (k (Some v)) end in
  match i with
  | DType v => once ty v (fun x => mk_dst x da fs bs ha fa mo mt)
  | DData b => once da b (fun x => mk_dst ty x fs bs ha fa mo mt)
  | DFileSize v => once fs v (fun x => mk_dst ty da x bs ha fa mo mt)
  | DBlockSize v =>
    match bs with
    | BsPacked _ => None
    | BsNone => Some (mk_dst ty da fs (BsUnpacked [v]) ha fa mo mt)
    | BsUnpacked l => Some (mk_dst ty da fs (BsUnpacked (v :: l)) ha fa mo mt)
    end
  | DPacked l => match bs with BsNone => Some (mk_dst ty da fs (BsPacked l) ha fa mo mt) | _ => None end
  | DHashType v => once ha v (fun x => mk_dst ty da fs bs x fa mo mt)
  | DFanout v => once fa v (fun x => mk_dst ty da fs bs ha x mo mt)
  | DMode v => once mo v (fun x => mk_dst ty da fs bs ha fa x mt)
  | DMtime t => match logical_time t with
                | None => None
                | Some ut => once mt ut (fun x => mk_dst ty da fs bs ha fa mo x)
                end
  | DUnknown _ _ => Some st
  end.

Fixpoint apply_ditems (st : dst) (its : list ditem) : option dst :=
  match its with
  | [] => Some st
  | i :: r => match apply_ditem st i with Some st' => apply_ditems st' r | None => None end
  end.

(* the logical message of a presentation: every singular field at most once, the type present,
   block sizes in wire order, either all unpacked or one packed run *)
Definition logical_data (its : list ditem) : option udata :=
  match apply_ditems dst0 its with
  | Some st => match finish_data st with Ok m => Some m | _ => None end
  | None => None
  end.

(* the presentation this library's encoder emits *)
Definition canon_time_items (t : unixtime) : list titem :=
  TSeconds (ut_seconds t) :: match ut_nanos t with Some n => [TNanos (n mod 4294967296)] | None => [] end.

Definition canon_items (m : udata) : list ditem :=
  DType (d_type m)
  :: match d_data m with Some b => [DData b] | None => [] end
  ++ match d_filesize m with Some v => [DFileSize v] | None => [] end
  ++ map DBlockSize (d_blocksizes m)
  ++ match d_hashtype m with Some v => [DHashType v] | None => [] end
  ++ match d_fanout m with Some v => [DFanout v] | None => [] end
  ++ match d_mode m with Some v => if v =? default_perm (d_type m) then [] else [DMode v] | None => [] end
  ++ match d_mtime m with Some t => [DMtime (canon_time_items t)] | None => [] end.

(* what survives an encode: a mode equal to the type default is dropped, nanoseconds are truncated to 32 bits *)
Definition canon (m : udata) : udata :=
  mk_ud (d_type m) (d_data m) (d_filesize m) (d_blocksizes m) (d_hashtype m) (d_fanout m)
        (match d_mode m with Some v => if v =? default_perm (d_type m) then None else Some v | None => None end)
        (match d_mtime m with Some t => Some (mk_ut (ut_seconds t) (option_map (fun n => n mod 4294967296) (ut_nanos t))) | None => None end).

Definition wf_udata (m : udata) : Prop :=
  d_type m < 2 ^ 64
  /\ match d_data m with Some b => N.of_nat (length b) < 2 ^ 64 | None => True end
  /\ match d_filesize m with Some v => v < 2 ^ 64 | None => True end
  /\ Forall (fun v => v < 2 ^ 64) (d_blocksizes m)
  /\ match d_hashtype m with Some v => v < 2 ^ 64 | None => True end
  /\ match d_fanout m with Some v => v < 2 ^ 64 | None => True end
  /\ match d_mode m with Some v => v < 4294967296 | None => True end
  /\ match d_mtime m with Some t => ut_seconds t < 2 ^ 64 | None => True end.
