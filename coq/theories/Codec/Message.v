(* Logical UnixFS messages.  Every integer is the uint64 bit pattern of the int64 held by the IPLD node (< 2^64). *)
From UV Require Export Base.Wire Gen.Consts.
Local Open Scope N_scope.

Record unixtime := mk_ut { ut_seconds : N; ut_nanos : option N }.

Record udata := mk_ud {
  d_type : N;
  d_data : option bytes;
  d_filesize : option N;
  d_blocksizes : list N;
  d_hashtype : option N;
  d_fanout : option N;
  d_mode : option N;
  d_mtime : option unixtime
}.

Record umeta := mk_um { m_mime : option bytes }.

(* data/permissions.go *)
Definition default_perm (t : N) : N :=
  if t =? Data_File then FilePermissionsDefault
  else if t =? Data_Directory then DirectorPerimissionsDefault
  else if t =? Data_HAMTShard then HAMTShardPerimissionsDefault
  else 0.

Definition permissions (m : udata) : N :=
  match d_mode m with
  | Some mode => N.land mode 4095
  | None => default_perm (d_type m)
  end.

Definition ut_eqb (a b : unixtime) : bool :=
  N.eqb (ut_seconds a) (ut_seconds b) && opt_eqb N.eqb (ut_nanos a) (ut_nanos b).

Definition ud_eqb (a b : udata) : bool :=
  N.eqb (d_type a) (d_type b) && opt_eqb bytes_eqb (d_data a) (d_data b)
  && opt_eqb N.eqb (d_filesize a) (d_filesize b) && list_eqb N.eqb (d_blocksizes a) (d_blocksizes b)
  && opt_eqb N.eqb (d_hashtype a) (d_hashtype b) && opt_eqb N.eqb (d_fanout a) (d_fanout b)
  && opt_eqb N.eqb (d_mode a) (d_mode b) && opt_eqb ut_eqb (d_mtime a) (d_mtime b).
