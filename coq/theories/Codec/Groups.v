(* Unknown fields of every wire type, deprecated groups included (nested to any depth up to protowire's limit), are
   skipped by the decoders wherever they occur: protowire.ConsumeFieldValue on well-formed field values. *)
From UV Require Import Base.VarintProofs Codec.WireProofs Codec.Presentation Codec.Proofs Codec.Padded.
From Coq Require Import ZifyN ZifyNat ZifyBool.
Local Open Scope N_scope.
Ltac Zify.zify_post_hook ::= Z.div_mod_to_equations.

(* a well-formed value of a field (num, typ), with its group-nesting height *)
Inductive fval : nat -> N -> N -> bytes -> Prop :=
| fv_varint h num v bs : venc v bs -> fval h num WT_Varint bs
| fv_fixed32 h num v : v < 4294967296 -> fval h num WT_Fixed32 (enc_fixed32 v)
| fv_fixed64 h num b : length b = 8%nat -> fval h num WT_Fixed64 b
| fv_bytes h num b bs : bytes_enc b bs -> fval h num WT_Bytes bs
| fv_group h num body etag : 1 <= num <= 2147483647 -> gbody h body -> tag_enc num WT_EndGroup etag ->
                             fval (S h) num WT_StartGroup (body ++ etag)
with gbody : nat -> bytes -> Prop :=
| gb_nil h : gbody h []
| gb_cons h num typ tb pb rest : 1 <= num <= 2147483647 -> typ < 8 -> typ <> WT_EndGroup ->
                                 tag_enc num typ tb -> fval h num typ pb -> gbody h rest -> gbody h (tb ++ pb ++ rest).

Definition group_loop (f : nat) (depth : Z) (num : N) :=
  fix group (g : nat) (bs : bytes) : option bytes :=
    match g with
    | O => None
    | S g' =>
      match consume_tag bs with
      | None => None
      | Some (num2, typ2, r) =>
        if typ2 =? WT_EndGroup then (if num =? num2 then Some r else None)
        else match consume_field_value f (depth - 1)%Z num2 typ2 r with
             | None => None
             | Some r' => group g' r'
             end
      end
    end.

Lemma cfv_S f depth num typ bs :
  consume_field_value (S f) depth num typ bs =
  if typ =? WT_Varint then option_map snd (dec_varint bs)
  else if typ =? WT_Fixed32 then option_map snd (consume_fixed32 bs)
  else if typ =? WT_Fixed64 then option_map snd (consume_fixed64 bs)
  else if typ =? WT_Bytes then option_map snd (consume_bytes bs)
  else if typ =? WT_StartGroup then
    if (depth <? 0)%Z then None else group_loop f depth num (S (length bs)) bs
  else None.
Proof. reflexivity. Qed.

Definition skips (f : nat) (depth : Z) (num typ : N) (pb : bytes) : Prop :=
  forall r, consume_field_value f depth num typ (pb ++ r) = Some r.

Lemma tag_len num typ tb : tag_enc num typ tb -> (1 <= length tb)%nat.
Proof. apply venc_nonempty. Qed.

(* the body of a group, given that its fields can be skipped one level down *)
Lemma gbody_loop h (f : nat) (depth : Z) (num : N) :
  (forall num2 typ2 pb, fval h num2 typ2 pb -> skips f (depth - 1)%Z num2 typ2 pb) ->
  1 <= num <= 2147483647 ->
  forall body, gbody h body -> forall etag r g, tag_enc num WT_EndGroup etag ->
    (length (body ++ etag ++ r) < g)%nat -> group_loop f depth num g (body ++ etag ++ r) = Some r.
Proof.
  intros Hskip Hnum body Hb. induction Hb as [h|h num2 typ2 tb pb rest Hn2 Ht2 Hne Htag Hv Hrest IH]; intros etag r g Het Hg.
  - cbn [app] in *. destruct g as [|g']; [lia|]. cbn [group_loop].
    rewrite (consume_tag_venc num WT_EndGroup etag r Hnum ltac:(reflexivity) Het).
    rewrite N.eqb_refl, N.eqb_refl. reflexivity.
  - destruct g as [|g']; [lia|]. cbn [group_loop]. rewrite <- !app_assoc.
    rewrite (consume_tag_venc num2 typ2 tb _ Hn2 Ht2 Htag).
    destruct (N.eqb_spec typ2 WT_EndGroup) as [E|_]; [contradiction|].
    rewrite (Hskip num2 typ2 pb Hv). apply (IH Hskip etag r g' Het).
    pose proof (tag_len _ _ _ Htag). rewrite !app_length in *. lia.
Qed.

(* every well-formed field value is consumed exactly, whatever follows *)
Theorem fval_skipped h : forall num typ pb, fval h num typ pb ->
  forall (f : nat) (depth : Z), (h < f)%nat -> (Z.of_nat h <= depth + 1)%Z -> skips f depth num typ pb.
Proof.
  induction h as [|h IH]; intros num typ pb Hv f depth Hf Hd r.
  - destruct f as [|f]; [lia|]. rewrite cfv_S.
    inversion Hv as [? ? v bs Hvv|? ? v Hvv|? ? b Hb|? ? b bs Hb|]; subst; closed_tests.
    + rewrite (venc_dec _ _ r Hvv). reflexivity.
    + rewrite consume_fixed32_enc by exact Hvv. reflexivity.
    + unfold consume_fixed64. replace 8 with (N.of_nat (length pb)) by lia. rewrite take_n_app. reflexivity.
    + rewrite (consume_bytes_venc _ _ r Hb). reflexivity.
  - destruct f as [|f]; [lia|]. rewrite cfv_S.
    inversion Hv as [? ? v bs Hvv|? ? v Hvv|? ? b Hb|? ? b bs Hb|? ? body etag Hn Hbody Het]; subst; closed_tests.
    + rewrite (venc_dec _ _ r Hvv). reflexivity.
    + rewrite consume_fixed32_enc by exact Hvv. reflexivity.
    + unfold consume_fixed64. replace 8 with (N.of_nat (length pb)) by lia. rewrite take_n_app. reflexivity.
    + rewrite (consume_bytes_venc _ _ r Hb). reflexivity.
    + destruct (Z.ltb_spec depth 0); [lia|]. rewrite <- app_assoc.
      apply (gbody_loop h f depth num); [|exact Hn|exact Hbody|exact Het|lia].
      intros num2 typ2 pb2 Hv2. apply (IH num2 typ2 pb2 Hv2 f (depth - 1)%Z); lia.
Qed.

(* protowire.ConsumeFieldValue as the decoders call it (fuel from the input length, recursion limit 10000):
   h is (an upper bound of) the group-nesting height of the value; a value nested h deep is at least h bytes long *)
Theorem skip_field_fval h num typ pb r :
  fval h num typ pb -> (h <= length pb)%nat -> (Z.of_nat h <= 10001)%Z -> skip_field num typ (pb ++ r) = Some r.
Proof.
  intros Hv Hl Hd. unfold skip_field. apply (fval_skipped h num typ pb Hv); [rewrite app_length; lia|lia].
Qed.

(* ---- Data presentations with arbitrary skippable unknown fields between the known ones ---- *)
Inductive xitem :=
| XKnown (i : ditem)
| XSkip (num typ : N) (h : nat).          (* an unknown field: number, wire type, nesting height of its value *)

Inductive xitem_enc : xitem -> bytes -> Prop :=
| xe_known i bs : ditem_enc i bs -> xitem_enc (XKnown i) bs
| xe_skip num typ h tb pb : 8 < num <= 536870911 -> typ < 8 -> tag_enc num typ tb -> fval h num typ pb ->
                            (h <= length pb)%nat -> (Z.of_nat h <= 10001)%Z -> xitem_enc (XSkip num typ h) (tb ++ pb).

Inductive xdata_enc : list xitem -> bytes -> Prop :=
| xdata_nil : xdata_enc [] []
| xdata_cons i r b1 b2 : xitem_enc i b1 -> xdata_enc r b2 -> xdata_enc (i :: r) (b1 ++ b2).

Definition known_of (its : list xitem) : list ditem :=
  flat_map (fun x => match x with XKnown i => [i] | XSkip _ _ _ => [] end) its.

Lemma dec_data_field_skip st num typ pb r :
  8 < num <= 536870911 -> skip_field num typ (pb ++ r) = Some r ->
  dec_data_field st num typ (pb ++ r) = Ok (st, r).
Proof.
  intros Hn Hs. destruct st as [ty da fs bs ha fa mo mt]. unfold dec_data_field.
  repeat match goal with
  | |- context [num =? ?c] => replace (num =? c) with false by (symmetry; apply N.eqb_neq; cbv; lia)
  end.
  rewrite Hs. reflexivity.
Qed.

Lemma dec_data_loop_xenc its : forall w fuel st,
  xdata_enc its w -> (length w <= fuel)%nat ->
  dec_data_loop fuel st w = match apply_ditems st (known_of its) with Some st' => Ok st' | None => Err EDecode end.
Proof.
  induction its as [|x its IH]; intros w fuel st Hw Hf.
  - inversion Hw; subst. cbn. destruct fuel; reflexivity.
  - inversion Hw as [|? ? b1 b2 Hx Hr]; subst. rewrite app_length in Hf.
    destruct Hx as [i bs Hi|num typ h tb pb Hn Hty Ht Hv Hl Hd].
    + pose proof (ditem_enc_nonempty i bs Hi) as Hne.
      destruct fuel as [|f]; [destruct bs; [congruence|cbn in Hf; lia]|].
      rewrite dec_data_loop_cons by (destruct bs; [congruence|discriminate]).
      destruct Hi as [tb pb Ht Hp]. rewrite <- app_assoc.
      destruct (ditem_tag_ok' i pb Hp) as [Hn Hty].
      rewrite (consume_tag_venc _ _ tb _ Hn Hty Ht), (dec_data_field_enc st i pb b2 Hp).
      cbn [known_of flat_map app apply_ditems]. fold (known_of its).
      destruct (apply_ditem st i) as [st'|]; [|reflexivity].
      apply IH; [exact Hr|]. pose proof (venc_nonempty _ _ Ht). rewrite app_length in Hf. lia.
    + pose proof (tag_len _ _ _ Ht) as Hl1.
      destruct fuel as [|f]; [rewrite app_length in Hf; lia|].
      rewrite dec_data_loop_cons by (destruct tb; [cbn in Hl1; lia|discriminate]).
      rewrite <- app_assoc. rewrite (consume_tag_venc num typ tb _ ltac:(lia) Hty Ht).
      rewrite (dec_data_field_skip st num typ pb b2 Hn (skip_field_fval h num typ pb b2 Hv Hl Hd)).
      cbn [known_of flat_map app]. fold (known_of its).
      apply IH; [exact Hr|]. rewrite app_length in Hf. lia.
Qed.

(* unknown fields of any wire type — groups nested to any depth up to the limit included — between, before or after
   the known fields do not change what a (padded or minimal) presentation decodes to *)
Theorem decode_with_unknown_fields its w :
  xdata_enc its w ->
  decode_data w = match logical_data (known_of its) with Some m => Ok m | None => Err EDecode end.
Proof.
  intros Hw. unfold decode_data, logical_data.
  rewrite (dec_data_loop_xenc its w _ _ Hw) by lia.
  destruct (apply_ditems dst0 (known_of its)) as [st|]; [|reflexivity].
  cbn [bind]. unfold finish_data. destruct (st_type st); reflexivity.
Qed.

(* non-vacuity: field 12 is a group containing a varint field and an empty nested group; then the type field *)
Example group_example :
  let w := [99;            (* tag 12 / start-group *)
            8; 5;          (*   field 1 varint 5 *)
            107; 108;      (*   field 13: start-group, end-group *)
            100;           (* tag 12 / end-group *)
            8; 2] in       (* Type = 2 *)
  xdata_enc [XSkip 12 WT_StartGroup 2; XKnown (DType 2)] w
  /\ decode_data w = Ok (mk_ud 2 None None [] None None None None).
Proof.
  cbv zeta. split; [|vm_compute; reflexivity].
  change [99; 8; 5; 107; 108; 100; 8; 2] with (([99] ++ (([8] ++ [5] ++ ([107] ++ ([] ++ [108]) ++ [])) ++ [100])) ++ ([8] ++ [2]) ++ []).
  constructor.
  - apply (xe_skip 12 WT_StartGroup 2 [99] (([8] ++ [5] ++ [107] ++ ([] ++ [108]) ++ []) ++ [100])); [lia|reflexivity| | |cbn; lia|lia].
    + apply (venc_n 1 99); [lia|reflexivity|reflexivity].
    + apply (fv_group 1 12); [lia| |apply (venc_n 1 100); [lia|reflexivity|reflexivity]].
      apply (gb_cons 1 1 WT_Varint [8] [5]); [lia|reflexivity|discriminate|apply (venc_n 1 8); [lia|reflexivity|reflexivity]| |].
      * apply (fv_varint 1 1 5 [5]). apply (venc_n 1 5); [lia|reflexivity|reflexivity].
      * apply (gb_cons 1 13 WT_StartGroup [107] ([] ++ [108]) []); [lia|reflexivity|discriminate|apply (venc_n 1 107); [lia|reflexivity|reflexivity]| |constructor].
        apply (fv_group 0 13); [lia|constructor|apply (venc_n 1 108); [lia|reflexivity|reflexivity]].
  - constructor; [|constructor]. constructor. apply (ditem_enc_intro (DType 2) [8] [2]); [apply (venc_n 1 8); [lia|reflexivity|reflexivity]|].
    apply (de_type 2 [2]). apply (venc_n 1 2); [lia|reflexivity|reflexivity].
Qed.
