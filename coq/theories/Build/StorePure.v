(* The builders with storage effects return, whenever they return a link, exactly what the effect-free builders compute
   (to which the functional theorems C01/C02/C07/C11/C18 apply): the store models refine the pure models. *)
From UV Require Import Build.Store Build.StoreProofs Build.DirStoreProofs Build.FsImport Build.FsImportProofs Build.ImportStore
  Hamt.TrieProofs Hamt.Refine.
From Coq Require Import ZifyN ZifyNat ZifyBool.
Local Open Scope N_scope.

Section Pure.
  Variable fo fc : N -> option N.
  Notation store_checked := (store_checked fo fc).

  Section File.
    Variable W : nat.

    Lemma fill_s_pure rec_s rec :
      (forall src s r s', rec_s src s = (Ok r, s') -> rec src = Ok r) ->
      forall n acc src s r s', fill_s rec_s n acc src s = (Ok r, s') -> fill rec n acc src = Ok r.
    Proof.
      intros Hrec. induction n as [|n IH]; intros acc src s r s' Hf; [cbn in *; congruence|].
      cbn [fill_s fill] in *. destruct (rec_s src s) as [[[[m|] src']| |] s1] eqn:Er; try discriminate.
      - rewrite (Hrec _ _ _ _ Er). apply (IH _ _ _ _ _ Hf).
      - rewrite (Hrec _ _ _ _ Er). congruence.
    Qed.

    Lemma ftr_s_pure d : forall seeded src s r s',
      ftr_s fo fc W d seeded src s = (Ok r, s') -> ftr W d seeded src = Ok r.
    Proof.
      induction d as [|d IH]; intros seeded src s r s' Hf; [discriminate|].
      cbn [ftr_s ftr] in *. destruct d as [|d'].
      - destruct seeded; [|discriminate]. destruct src as [|c rest]; [congruence|].
        destruct (store_checked (Raw c) s) as [[b| |] s1]; congruence.
      - destruct (fill_s (ftr_s fo fc W (S d') []) (W - length seeded) seeded src s) as [[[children src']| |] s1] eqn:Efs; try discriminate.
        rewrite (fill_s_pure (ftr_s fo fc W (S d') []) (ftr W (S d') []) (fun src0 s0 r0 s0' H0 => IH [] src0 s0 r0 s0' H0) _ _ _ _ _ _ Efs).
        destruct children as [|c [|c2 rest]]; [congruence| |].
        + destruct (Nat.eqb (length seeded) 1); [congruence|].
          destruct (store_checked (m_link (mk_node [c])) s1) as [[b| |] s2]; congruence.
        + destruct (store_checked (m_link (mk_node (c :: c2 :: rest))) s1) as [[b| |] s2]; congruence.
    Qed.

    Lemma build_loop_s_pure fuel : forall depth prev src s r s',
      build_loop_s fo fc W fuel depth prev src s = (Ok r, s') -> build_loop W fuel depth prev src = Ok r.
    Proof.
      induction fuel as [|f IH]; intros depth prev src s r s' Hb; [discriminate|].
      cbn [build_loop_s build_loop] in *.
      destruct (ftr_s fo fc W depth [prev] src s) as [[[[next|] src']| |] s1] eqn:Ef; try discriminate.
      rewrite (ftr_s_pure _ _ _ _ _ _ Ef).
      destruct (blk_eqb (m_link prev) (m_link next)); [congruence|]. apply (IH _ _ _ _ _ _ Hb).
    Qed.

    Theorem build_file_s_pure chunks s r s' :
      build_file_s fo fc W chunks s = (Ok r, s') -> build_file W chunks = Ok r.
    Proof.
      unfold build_file_s, build_file. destruct chunks as [|c rest].
      - destruct (store_checked (Raw []) s) as [[b| |] s1]; congruence.
      - destruct (store_checked (Raw c) s) as [[b| |] s1]; try discriminate. apply build_loop_s_pure.
    Qed.
  End File.

  Lemma serialize_s_pure size hasher width n : forall cs s r s', n = BShard cs ->
    serialize_s fo fc size hasher width n s = (Ok r, s') -> r = serialize_node size hasher width n.
  Proof.
    intros cs s r s' -> Hs. cbn [serialize_s] in Hs.
    match type of Hs with context [match ?step with _ => _ end] => destruct step as [[u| |] s1] end; try discriminate.
    destruct (serialize_node size hasher width (BShard cs)) as [b sz].
    destruct (store_checked b s1) as [[b'| |] s2]; congruence.
  Qed.

  Section Import.
    Variable W : nat.
    Variable chunk : bytes -> list bytes.
    Variable hash : bytes -> bytes.

    Lemma build_dir_s_pure entries s r s' : build_dir_s fo fc entries s = (Ok r, s') -> build_dir entries = Ok r.
    Proof.
      unfold build_dir_s, build_dir, build_sharded. destruct (shardSplitThreshold <? estimate_dir_size entries).
      - destruct (log2_exact defaultShardWidth) as [lg|]; [|discriminate].
        destruct (add_all lg entries) as [cs| |]; try discriminate. cbn [bind].
        destruct (negb (defaultShardWidth mod 8 =? 0)); [discriminate|].
        intros Hs. rewrite (serialize_s_pure _ _ _ (BShard cs) cs s r s' eq_refl Hs). reflexivity.
      - unfold build_plain_s. destruct (build_plain entries) as [b sz]. destruct (store_checked b s) as [[b'| |] s1]; congruence.
    Qed.

    Theorem import_s_pure t : forall s r s', import_s fo fc W chunk hash t s = (Ok r, s') -> import W chunk hash t = Ok r.
    Proof.
      induction t as [c|x| |entries IH] using fsnode_ind'; intros s r s' Hi.
      - cbn [import_s import] in *. apply (build_file_s_pure W _ _ _ _ Hi).
      - cbn [import_s import] in *. unfold build_symlink_s in Hi.
        destruct (store_checked (symlink_blk x) s) as [[b| |] s1] eqn:Es; try discriminate.
        unfold Store.store_checked, store in Es. destruct (fo (ws_opens s + 1)); [discriminate|]. destruct (fc (ws_commits s + 1)); [discriminate|].
        inversion Es; subst. congruence.
      - discriminate.
      - rewrite import_s_dir in Hi. rewrite import_dir.
        assert (G : forall es, Forall (fun e => forall s r s', import_s fo fc W chunk hash (snd e) s = (Ok r, s') -> import W chunk hash (snd e) = Ok r) es ->
                    forall acc s r s', import_links_s fo fc W chunk hash es acc s = (Ok r, s') -> import_links W chunk hash es acc = Ok r).
        { induction 1 as [|[name child] rest Hc _ IHr]; intros acc s0 r0 s0' Hl.
          - cbn [import_links_s import_links] in *. apply (build_dir_s_pure _ _ _ _ Hl).
          - cbn [import_links_s import_links] in *. cbn [snd] in Hc.
            destruct (import_s fo fc W chunk hash child s0) as [[[b sz]| |] s1] eqn:Ec; try discriminate.
            rewrite (Hc _ _ _ Ec). apply (IHr _ _ _ _ Hl). }
        apply (G entries IH [] s r s' Hi).
    Qed.
  End Import.
End Pure.
