(* data/builder/directory.go: BuildUnixFSRecursive over an abstract filesystem tree.
   os.Lstat / ReadDir / Readlink / Open are represented by the tree itself (ReadDir yields entries sorted by name). *)
From UV Require Export File.Builder Hamt.Build Build.Store.
Local Open Scope N_scope.

Inductive fsnode :=
| FFile (content : bytes)
| FDir (entries : list (bytes * fsnode))     (* as returned by os.ReadDir: sorted by file name *)
| FSymlink (target : bytes)
| FOther.                                     (* fifo, socket, device, ... *)

Section Import.
  Variable W : nat.                          (* DefaultLinksPerBlock *)
  Variable chunk : bytes -> list bytes.      (* the default chunker: size-262144 *)
  Variable hash : bytes -> bytes.            (* murmur3-x64-64 of a name *)

  Fixpoint import (t : fsnode) : res (blk * N) :=
    match t with
    | FOther => Err EOther                                 (* "cannot encode non regular file" *)
    | FFile c => build_file W (chunk c)
    | FSymlink target => Ok (symlink_blk target, enc_len (symlink_blk target))
    | FDir entries =>
      (fix go (es : list (bytes * fsnode)) (acc : list entry) : res (blk * N) :=
         match es with
         | [] => build_dir (rev acc)
         | (name, child) :: r =>
           match import child with
           | Ok (b, sz) => go r (mk_entry name (hash name) (Z.of_N sz) b :: acc)
           | Err e => Err e
           | Panic => Panic
           end
         end) entries []
    end.
End Import.

(* does the tree contain anything that is not a regular file, directory or symlink? *)
Fixpoint has_other (t : fsnode) : bool :=
  match t with
  | FOther => true
  | FDir entries => existsb (fun e => has_other (snd e)) entries
  | _ => false
  end.
