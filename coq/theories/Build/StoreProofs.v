(* C16: children are committed before parents; a failed write gives an error and no link; a returned
   link's whole DAG is committed. *)
From UV Require Import Build.Store Blocks.BlkProofs.
From Coq Require Import ZifyN ZifyNat ZifyBool.
Local Open Scope N_scope.

Definition is_ext (b : blk) : bool := match b with Ext _ _ => true | _ => false end.
(* the builder-produced blocks a block links to *)
Definition kids (b : blk) : list blk :=
  match b with Pb _ ls => filter (fun c => negb (is_ext c)) (map l_target ls) | _ => [] end.

(* no committed block has a dangling link to a block of the same build: at the moment b is committed
   every block it links to is already in the store *)
Inductive dfree : list blk -> Prop :=
| dfree_nil : dfree []
| dfree_snoc tr b : dfree tr -> (forall c, In c (kids b) -> In c tr) -> dfree (tr ++ [b]).

Definition extends (s s' : wstate) : Prop := exists more, ws_trace s' = ws_trace s ++ more.
(* every open so far was followed by a successful commit *)
Definition clean (s : wstate) : Prop := ws_opens s = ws_commits s /\ ws_commits s = N.of_nat (length (ws_trace s)).

Lemma extends_refl s : extends s s. Proof. exists []. rewrite app_nil_r. reflexivity. Qed.
Lemma extends_trans a b c : extends a b -> extends b c -> extends a c.
Proof. intros [m1 H1] [m2 H2]. exists (m1 ++ m2). rewrite H2, H1, app_assoc. reflexivity. Qed.
Lemma extends_in a b x : extends a b -> In x (ws_trace a) -> In x (ws_trace b).
Proof. intros [m H] Hi. rewrite H. apply in_or_app. left. exact Hi. Qed.

Section P.
  Variable fail_open fail_commit : N -> option N.
  Notation store_checked := (store_checked fail_open fail_commit).

  (* the k-th open and commit for k up to the counters did not fail *)
  Definition no_failure (s : wstate) : Prop :=
    (forall k, 1 <= k <= ws_opens s -> fail_open k = None) /\ (forall k, 1 <= k <= ws_commits s -> fail_commit k = None).

  Lemma store_spec b s r s' :
    store_checked b s = (r, s') -> dfree (ws_trace s) -> (forall c, In c (kids b) -> In c (ws_trace s)) ->
    dfree (ws_trace s') /\ extends s s'
    /\ match r with
       | Ok b' => b' = b /\ In b (ws_trace s') /\ (clean s -> clean s') /\ (no_failure s -> no_failure s')
       | _ => True
       end.
  Proof.
    unfold store_checked, store. intros H Hd Hk.
    destruct (fail_open (ws_opens s + 1)) as [k|] eqn:Eo.
    - inversion H; subst. cbn. repeat split; auto. exists []. rewrite app_nil_r. reflexivity.
    - destruct (fail_commit (ws_commits s + 1)) as [k|] eqn:Ec; inversion H; subst; cbn [ws_trace ws_opens ws_commits].
      + repeat split; auto. exists []. rewrite app_nil_r. reflexivity.
      + split; [constructor; assumption|]. split; [exists [b]; reflexivity|].
        split; [reflexivity|]. split; [apply in_or_app; right; left; reflexivity|]. split.
        * intros [H1 H2]. unfold clean. cbn. rewrite app_length. cbn. lia.
        * intros [H1 H2]. split; cbn; intros k Hk'.
          -- destruct (N.eq_dec k (ws_opens s + 1)) as [->|]; [exact Eo|apply H1; lia].
          -- destruct (N.eq_dec k (ws_commits s + 1)) as [->|]; [exact Ec|apply H2; lia].
  Qed.

  (* what every (sub)builder guarantees about the store *)
  Definition sound {A} (run : wstate -> res A * wstate) (links : A -> list blk) : Prop :=
    forall s r s', run s = (r, s') -> dfree (ws_trace s) ->
      dfree (ws_trace s') /\ extends s s'
      /\ match r with
         | Ok a => (forall b, In b (links a) -> In b (ws_trace s')) /\ (clean s -> clean s') /\ (no_failure s -> no_failure s')
         | _ => True
         end.

  Definition opt_link (r : option meta * list bytes) : list blk := match fst r with Some m => [m_link m] | None => [] end.

  Section File.
    Variable W : nat.

    Lemma fill_s_sound rec :
      (forall src, sound (rec src) opt_link) ->
      forall n acc src s r s', fill_s rec n acc src s = (r, s') -> dfree (ws_trace s) ->
        (forall m, In m acc -> In (m_link m) (ws_trace s)) ->
        dfree (ws_trace s') /\ extends s s'
        /\ match r with
           | Ok (children, _) => (forall m, In m children -> In (m_link m) (ws_trace s')) /\ (clean s -> clean s') /\ (no_failure s -> no_failure s')
           | _ => True
           end.
    Proof.
      intros Hrec. induction n as [|n IH]; intros acc src s r s' Hf Hd Hacc.
      - cbn in Hf. inversion Hf; subst. split; [exact Hd|]. split; [apply extends_refl|]. auto.
      - cbn [fill_s] in Hf. destruct (rec src s) as [[[[m|] src']| |] s1] eqn:Er.
        + destruct (Hrec src s _ _ Er Hd) as (Hd1 & He1 & Hl1 & Hc1 & Hn1).
          destruct (IH (acc ++ [m]) src' s1 r s' Hf Hd1) as (Hd2 & He2 & Hr).
          { intros m' Hin. apply in_app_or in Hin. destruct Hin as [Hin|[<-|[]]].
            - eapply extends_in; [exact He1|apply Hacc; exact Hin].
            - apply Hl1. left. reflexivity. }
          split; [exact Hd2|]. split; [eapply extends_trans; eassumption|].
          destruct r as [[children rest]| |]; auto. destruct Hr as (Hr1 & Hr2 & Hr3). auto.
        + destruct (Hrec src s _ _ Er Hd) as (Hd1 & He1 & _ & Hc1 & Hn1). inversion Hf; subst.
          split; [exact Hd1|]. split; [exact He1|]. split; [|auto].
          intros m Hin. eapply extends_in; [exact He1|apply Hacc; exact Hin].
        + destruct (Hrec src s _ _ Er Hd) as (Hd1 & He1 & _). inversion Hf; subst. auto.
        + destruct (Hrec src s _ _ Er Hd) as (Hd1 & He1 & _). inversion Hf; subst. auto.
    Qed.

    Lemma kids_mk_node children c : In c (kids (m_link (mk_node children))) -> exists m, In m children /\ m_link m = c.
    Proof.
      unfold mk_node, m_link, kids. cbn [fst]. intros H. apply filter_In in H. destruct H as [H _].
      unfold file_links in H. rewrite map_map in H. apply in_map_iff in H. destruct H as (m & Hm & Hin).
      exists m. auto.
    Qed.

    Lemma store_node_sound children src' s r s' :
      (match store_checked (m_link (mk_node children)) s with
       | (Ok _, s'') => (Ok (Some (mk_node children), src'), s'')
       | (Err e, s'') => (Err e, s'')
       | (Panic, s'') => (Panic, s'')
       end) = (r, s') ->
      dfree (ws_trace s) -> (forall m, In m children -> In (m_link m) (ws_trace s)) ->
      dfree (ws_trace s') /\ extends s s'
      /\ match r with
         | Ok a => (forall b, In b (opt_link a) -> In b (ws_trace s')) /\ (clean s -> clean s') /\ (no_failure s -> no_failure s')
         | _ => True
         end.
    Proof.
      intros H Hd Hk. destruct (store_checked (m_link (mk_node children)) s) as [rr s1] eqn:Es.
      destruct (store_spec _ _ _ _ Es Hd) as (Hd1 & He1 & Hr).
      { intros c Hc. destruct (kids_mk_node _ _ Hc) as (m & Hm & <-). apply Hk. exact Hm. }
      destruct rr as [b'| |]; inversion H; subst; auto.
      destruct Hr as (-> & Hin & Hc & Hn). split; [exact Hd1|]. split; [exact He1|]. split; [|auto].
      intros b [<-|[]]. exact Hin.
    Qed.

    Lemma ftr_s_sound d : forall seeded src,
      forall s r s', ftr_s fail_open fail_commit W d seeded src s = (r, s') -> dfree (ws_trace s) ->
        (forall m, In m seeded -> In (m_link m) (ws_trace s)) ->
        dfree (ws_trace s') /\ extends s s'
        /\ match r with
           | Ok a => (forall b, In b (opt_link a) -> In b (ws_trace s')) /\ (clean s -> clean s') /\ (no_failure s -> no_failure s')
           | _ => True
           end.
    Proof.
      induction d as [|d IH]; intros seeded src s r s' Hf Hd Hseed.
      - cbn in Hf. inversion Hf; subst. split; [exact Hd|]. split; [apply extends_refl|exact I].
      - destruct d as [|d'].
        + cbn [ftr_s] in Hf. destruct seeded; [|inversion Hf; subst; split; [exact Hd|split; [apply extends_refl|exact I]]].
          destruct src as [|c rest].
          * inversion Hf; subst. split; [exact Hd|]. split; [apply extends_refl|]. split; [intros b []|auto].
          * destruct (store_checked (Raw c) s) as [rr s1] eqn:Es.
            destruct (store_spec _ _ _ _ Es Hd ltac:(intros ? [])) as (Hd1 & He1 & Hr).
            destruct rr as [b'| |]; inversion Hf; subst; auto.
            destruct Hr as (-> & Hin & Hc & Hn). split; [exact Hd1|]. split; [exact He1|]. split; [|auto].
            intros b [<-|[]]. exact Hin.
        + change (ftr_s fail_open fail_commit W (S (S d')) seeded src s) with
            (match fill_s (ftr_s fail_open fail_commit W (S d') []) (W - length seeded) seeded src s with
             | (Ok (children, src'), s') =>
               match children with
               | [] => (Ok (None, src'), s')
               | [c] => if Nat.eqb (length seeded) 1 then (Ok (Some c, src'), s')
                        else match store_checked (m_link (mk_node children)) s' with
                             | (Ok _, s'') => (Ok (Some (mk_node children), src'), s'')
                             | (Err e, s'') => (Err e, s'')
                             | (Panic, s'') => (Panic, s'')
                             end
               | _ => match store_checked (m_link (mk_node children)) s' with
                      | (Ok _, s'') => (Ok (Some (mk_node children), src'), s'')
                      | (Err e, s'') => (Err e, s'')
                      | (Panic, s'') => (Panic, s'')
                      end
               end
             | (Err e, s') => (Err e, s')
             | (Panic, s') => (Panic, s')
             end) in Hf.
          destruct (fill_s (ftr_s fail_open fail_commit W (S d') []) (W - length seeded) seeded src s) as [rf s1] eqn:Ef.
          assert (Hrec : forall src0, sound (ftr_s fail_open fail_commit W (S d') [] src0) opt_link).
          { intros src0 s0 r0 s0' H0 Hd0. apply (IH [] src0 s0 r0 s0' H0 Hd0). intros m []. }
          destruct (fill_s_sound _ Hrec _ _ _ _ _ _ Ef Hd Hseed) as (Hd1 & He1 & Hr).
          destruct rf as [[children src']| |]; [|inversion Hf; subst; auto|inversion Hf; subst; auto].
          destruct Hr as (Hk & Hc1 & Hn1).
          destruct children as [|c [|c2 cr]].
          * inversion Hf; subst. split; [exact Hd1|]. split; [exact He1|]. split; [intros b []|auto].
          * destruct (Nat.eqb (length seeded) 1).
            -- inversion Hf; subst. split; [exact Hd1|]. split; [exact He1|]. split; [|auto].
               intros b [<-|[]]. apply Hk. left. reflexivity.
            -- destruct (store_node_sound _ _ _ _ _ Hf Hd1 Hk) as (Hd2 & He2 & Hr2).
               split; [exact Hd2|]. split; [eapply extends_trans; eassumption|].
               destruct r as [a| |]; auto. destruct Hr2 as (H1 & H2 & H3). auto.
          * destruct (store_node_sound _ _ _ _ _ Hf Hd1 Hk) as (Hd2 & He2 & Hr2).
            split; [exact Hd2|]. split; [eapply extends_trans; eassumption|].
            destruct r as [a| |]; auto. destruct Hr2 as (H1 & H2 & H3). auto.
    Qed.

    Definition root_link (r : blk * N) : list blk := [fst r].

    Lemma build_loop_s_sound fuel : forall depth prev src s r s',
      build_loop_s fail_open fail_commit W fuel depth prev src s = (r, s') -> dfree (ws_trace s) ->
      In (m_link prev) (ws_trace s) ->
      dfree (ws_trace s') /\ extends s s'
      /\ match r with
         | Ok a => (forall b, In b (root_link a) -> In b (ws_trace s')) /\ (clean s -> clean s') /\ (no_failure s -> no_failure s')
         | _ => True
         end.
    Proof.
      induction fuel as [|f IH]; intros depth prev src s r s' Hb Hd Hp.
      - cbn in Hb. inversion Hb; subst. split; [exact Hd|]. split; [apply extends_refl|exact I].
      - cbn [build_loop_s] in Hb.
        destruct (ftr_s fail_open fail_commit W depth [prev] src s) as [rf s1] eqn:Ef.
        destruct (ftr_s_sound depth [prev] src s rf s1 Ef Hd) as (Hd1 & He1 & Hr).
        { intros m [<-|[]]. exact Hp. }
        destruct rf as [[[next|] src']| |]; try (inversion Hb; subst; auto; fail).
        destruct Hr as (Hl & Hc1 & Hn1).
        destruct (blk_eqb (m_link prev) (m_link next)).
        + inversion Hb; subst. split; [exact Hd1|]. split; [exact He1|]. split; [|auto].
          intros b [<-|[]]. apply Hl. left. reflexivity.
        + destruct (IH _ _ _ _ _ _ Hb Hd1 ltac:(apply Hl; left; reflexivity)) as (Hd2 & He2 & Hr2).
          split; [exact Hd2|]. split; [eapply extends_trans; eassumption|].
          destruct r as [a| |]; auto. destruct Hr2 as (H1 & H2 & H3). auto.
    Qed.

    Theorem build_file_s_sound chunks : sound (build_file_s fail_open fail_commit W chunks) root_link.
    Proof.
      intros s r s' Hb Hd. unfold build_file_s in Hb. destruct chunks as [|c rest].
      - destruct (store_checked (Raw []) s) as [rr s1] eqn:Es.
        destruct (store_spec _ _ _ _ Es Hd ltac:(intros ? [])) as (Hd1 & He1 & Hr).
        destruct rr as [b'| |]; inversion Hb; subst; auto.
        destruct Hr as (-> & Hin & Hc & Hn). split; [exact Hd1|]. split; [exact He1|]. split; [|auto].
        intros b [<-|[]]. exact Hin.
      - destruct (store_checked (Raw c) s) as [rr s1] eqn:Es.
        destruct (store_spec _ _ _ _ Es Hd ltac:(intros ? [])) as (Hd1 & He1 & Hr).
        destruct rr as [b'| |]; try (inversion Hb; subst; auto; fail).
        destruct Hr as (-> & Hin & Hc & Hn).
        destruct (build_loop_s_sound _ _ _ _ _ _ _ Hb Hd1 Hin) as (Hd2 & He2 & Hr2).
        split; [exact Hd2|]. split; [eapply extends_trans; eassumption|].
        destruct r as [a| |]; auto. destruct Hr2 as (H1 & H2 & H3). auto.
    Qed.
  End File.
End P.

(* a dangling-free store is closed under links: a committed block's whole builder-produced DAG is committed *)
Lemma dfree_kids tr : dfree tr -> forall b c, In b tr -> In c (kids b) -> In c tr.
Proof.
  induction 1 as [|tr x Hd IH Hx]; intros b c Hb Hc; [destruct Hb|].
  apply in_or_app. left. apply in_app_or in Hb. destruct Hb as [Hb|[<-|[]]].
  - eapply IH; eassumption.
  - apply Hx. exact Hc.
Qed.

Fixpoint built_blocks (b : blk) : list blk :=
  match b with
  | Ext _ _ => []
  | Raw _ => [b]
  | Pb _ ls => b :: flat_map (fun l => built_blocks (l_target l)) ls
  end.

Theorem dfree_closed tr : dfree tr -> forall b, In b tr -> forall x, In x (built_blocks b) -> In x tr.
Proof.
  intros Hd b. induction b as [c|i n|d ls IH] using blk_ind'; intros Hb x Hx.
  - destruct Hx as [<-|[]]. exact Hb.
  - destruct Hx.
  - destruct Hx as [<-|Hx]; [exact Hb|].
    apply in_flat_map in Hx. destruct Hx as (l & Hl & Hx).
    rewrite Forall_forall in IH. apply (IH l Hl); [|exact Hx].
    destruct (is_ext (l_target l)) eqn:Ee.
    + destruct (l_target l); try discriminate. destruct Hx.
    + eapply dfree_kids; [exact Hd|exact Hb|]. cbn. apply filter_In. split; [apply in_map; exact Hl|rewrite Ee; reflexivity].
Qed.

Lemma dfree_prefix a : forall b, dfree (a ++ b) -> dfree a.
Proof.
  intros b. induction b as [|x b IH] using rev_ind; intros H; [rewrite app_nil_r in H; exact H|].
  apply IH. rewrite app_assoc in H. inversion H as [E|tr y Hd Hy E].
  - destruct (a ++ b); discriminate.
  - apply app_inj_tail in E. destruct E as [<- _]. exact Hd.
Qed.

Lemma clean_ws0 : clean ws0. Proof. split; reflexivity. Qed.
Lemma no_failure_ws0 fo fc : no_failure fo fc ws0. Proof. split; intros k Hk; cbn in Hk; lia. Qed.

(* C16 for BuildUnixFSFile, for every width, chunk list and failure plan *)
Theorem file_build_store_safe fo fc W chunks lnk sz err s' :
  BuildUnixFSFile fo fc W chunks ws0 = ((lnk, sz, err), s') ->
  (* at every interruption point the store holds no builder-written block with a dangling link *)
  (forall pre post, ws_trace s' = pre ++ post -> dfree pre)
  (* an error comes without a link *)
  /\ (err <> None -> lnk = None)
  (* a link comes only after its whole DAG was committed, and only if no write failed *)
  /\ (err = None -> exists root, lnk = Some root /\ (forall x, In x (built_blocks root) -> In x (ws_trace s'))
                               /\ no_failure fo fc s' /\ clean s').
Proof.
  unfold BuildUnixFSFile. intros H.
  assert (Hsound : forall r s1, build_file_s fo fc W chunks ws0 = (r, s1) ->
            dfree (ws_trace s1) /\ match r with
                                   | Ok a => In (fst a) (ws_trace s1) /\ clean s1 /\ no_failure fo fc s1
                                   | _ => True end).
  { intros r s1 Hb. destruct (build_file_s_sound fo fc W chunks ws0 r s1 Hb dfree_nil) as (Hd & _ & Hr).
    split; [exact Hd|]. destruct r as [a| |]; auto. destruct Hr as (Hl & Hc & Hn).
    split; [apply Hl; left; reflexivity|]. split; [apply Hc, clean_ws0|apply Hn, no_failure_ws0]. }
  destruct chunks as [|c rest].
  - destruct (store fo fc (Raw []) ws0) as [[r l] s1] eqn:Es.
    assert (Hb : build_file_s fo fc W [] ws0 = (match r with Ok _ => Ok (Raw [], 0) | Err e => Err e | Panic => Panic end, s1)).
    { unfold build_file_s, store_checked. rewrite Es. destruct r; reflexivity. }
    destruct (Hsound _ _ Hb) as (Hd & Hr).
    unfold store in Es. cbn in Es.
    destruct (fo 1) eqn:Eo; [inversion Es; subst; inversion H; subst|].
    + split; [intros pre post E; apply (dfree_prefix pre post); rewrite <- E; exact Hd|]. split; [reflexivity|discriminate].
    + destruct (fc 1) eqn:Ec; inversion Es; subst; inversion H; subst.
      * split; [intros pre post E; apply (dfree_prefix pre post); rewrite <- E; exact Hd|]. split; [reflexivity|discriminate].
      * split; [intros pre post E; apply (dfree_prefix pre post); rewrite <- E; exact Hd|]. split; [congruence|].
        intros _. exists (Raw []). split; [reflexivity|]. destruct Hr as (Hin & Hc & Hn).
        split; [intros x [<-|[]]; exact Hin|auto].
  - destruct (build_file_s fo fc W (c :: rest) ws0) as [r s1] eqn:Eb. inversion H; subst. clear H.
    destruct (Hsound _ _ eq_refl) as (Hd & Hr).
    split; [intros pre post E; apply (dfree_prefix pre post); rewrite <- E; exact Hd|].
    destruct r as [[root sz']| |]; cbn in *.
    + match goal with H : (_, _, _) = (_, _, _) |- _ => inversion H; subst end.
      split; [congruence|]. intros _. exists root. split; [reflexivity|]. destruct Hr as (Hin & Hc & Hn).
      split; [apply (dfree_closed _ Hd _ Hin)|auto].
    + match goal with H : (_, _, _) = (_, _, _) |- _ => inversion H; subst end. split; [reflexivity|discriminate].
    + match goal with H : (_, _, _) = (_, _, _) |- _ => inversion H; subst end. split; [reflexivity|discriminate].
Qed.

(* BuildUnixFSSymlink: one block; an error comes without a link *)
Theorem symlink_store_safe fo fc target lnk sz err s' :
  BuildUnixFSSymlink fo fc target ws0 = ((lnk, sz, err), s') ->
  (err <> None -> lnk = None)
  /\ (err = None -> lnk = Some (symlink_blk target) /\ In (symlink_blk target) (ws_trace s')).
Proof.
  unfold BuildUnixFSSymlink, store. cbn.
  destruct (fo 1); [intros [= <- <- <- <-]; split; [reflexivity|discriminate]|].
  destruct (fc 1); intros [= <- <- <- <-]; (split; [try reflexivity; congruence|]); try discriminate.
  intros _. split; [reflexivity|left; reflexivity].
Qed.
