(* BuildUnixFSRecursive: what a successful import denotes, directories of EVERY size included (plain below the
   auto-shard threshold, HAMT-sharded above it), viewed the way reification dispatches on the UnixFS type. *)
From UV Require Import Build.FsImport Build.FsImportProofs File.Spec File.BuilderProofs File.BuilderProofs2
  Dir.PlainProofs Dir.BuildProofs Hamt.SortProofs Hamt.Read Hamt.ShardDecode Hamt.Refine Codec.Presentation Codec.RoundTrip.
From UV Require Import Dir.Plain.
From Coq Require Import Permutation ZifyN ZifyNat ZifyBool.
Local Open Scope N_scope.

Section P.
  Variable W : nat.
  Hypothesis HW : (2 <= W)%nat.
  Variable chunk : bytes -> list bytes.
  Hypothesis chunk_concat : forall b, concat (chunk b) = b.
  Variable hash : bytes -> bytes.
  Hypothesis hash_wf : forall k, wf_bytes (hash k) = true.
  Hypothesis hash_len : forall k, length (hash k) = 8%nat.

  (* a directory node as Reify presents it: dispatch on the decoded UnixFS type *)
  Definition dir_type (b : blk) : option N :=
    match b with
    | Pb (Some d) _ => match decode_data d with Ok m => Some (d_type m) | _ => None end
    | _ => None
    end.
  Definition dir_lookup (b : blk) (name : bytes) : res blk :=
    match dir_type b, b with
    | Some t, Pb _ ls =>
      if t =? Data_Directory then lookup_by_string ls name
      else if t =? Data_HAMTShard then fst (Read.lookup nofault b (hash name) name)
      else Err EInvalid
    | _, _ => Err EInvalid
    end.
  Definition dir_count (b : blk) : res N :=
    match dir_type b, b with
    | Some t, Pb _ ls =>
      if t =? Data_Directory then Ok (Z.to_N (dir_length ls))
      else if t =? Data_HAMTShard then fst (shard_length nofault b)
      else Err EInvalid
    | _, _ => Err EInvalid
    end.

  Fixpoint denotes2 (t : fsnode) (b : blk) : Prop :=
    match t with
    | FFile c => well_sized b = true /\ content b = c
    | FSymlink target => b = symlink_blk target
    | FOther => False
    | FDir entries =>
      dir_count b = Ok (N.of_nat (length entries))
      /\ (fix all (es : list (bytes * fsnode)) : Prop :=
            match es with
            | [] => True
            | (name, child) :: r => (exists cb, dir_lookup b name = Ok cb /\ denotes2 child cb) /\ all r
            end) entries
    end.
  Definition dir_all2 (b : blk) :=
    fix all (es : list (bytes * fsnode)) : Prop :=
      match es with
      | [] => True
      | (name, child) :: r => (exists cb, dir_lookup b name = Ok cb /\ denotes2 child cb) /\ all r
      end.

  (* side conditions: files below 2^63 bytes, names non-empty and distinct within each directory *)
  Fixpoint tame2 (t : fsnode) : Prop :=
    match t with
    | FFile c => blen c < bound63
    | FDir entries =>
      NoDup (map fst entries) /\ Forall (fun e => fst e <> []) entries
      /\ (fix all (es : list (bytes * fsnode)) : Prop :=
            match es with [] => True | (_, c) :: r => tame2 c /\ all r end) entries
    | _ => True
    end.
  Definition tame2_all :=
    fix all (es : list (bytes * fsnode)) : Prop :=
      match es with [] => True | (_, c) :: r => tame2 c /\ all r end.

  Lemma import_links_spec2 es : forall acc b sz,
    import_links W chunk hash es acc = Ok (b, sz) ->
    exists news, length news = length es /\ map e_name news = map fst es
                 /\ Forall (fun e => e_hash e = hash (e_name e)) news
                 /\ build_dir (rev acc ++ news) = Ok (b, sz)
                 /\ Forall2 (fun e ent => exists csz, import W chunk hash (snd e) = Ok (e_target ent, csz)) es news.
  Proof.
    induction es as [|[name child] rest IH]; intros acc b sz Hi.
    - exists []. cbn in *. rewrite app_nil_r. repeat split; auto.
    - cbn [import_links] in Hi. destruct (import W chunk hash child) as [[cb csz]| |] eqn:Ec; try discriminate.
      destruct (IH _ _ _ Hi) as (news & Hl & Hn & Hh & Hb & Hf).
      exists (mk_entry name (hash name) (Z.of_N csz) cb :: news). cbn [length map fst e_name].
      split; [lia|]. split; [f_equal; exact Hn|]. split; [constructor; [reflexivity|exact Hh]|]. split.
      + cbn [rev] in Hb. rewrite <- app_assoc in Hb. exact Hb.
      + constructor; [|exact Hf]. exists csz. exact Ec.
  Qed.

  Lemma dir_type_plain ls : dir_type (Pb (Some dir_data) ls) = Some Data_Directory.
  Proof. reflexivity. Qed.

  Lemma dir_type_shard cs ls : Forall (fun k => k < 256) (map fst cs) ->
    dir_type (Pb (Some (shard_data defaultShardWidth HashMurmur3 cs)) ls) = Some Data_HAMTShard.
  Proof.
    intros Hk. unfold dir_type, shard_data. rewrite decode_encode; [reflexivity|].
    pose proof (BitfieldProofs.bitmap_lt cs 256 Hk) as Hb.
    pose proof (BitfieldProofs.bf_bytes_len 256 (bitmap_of cs) eq_refl Hb) as Hlen. change (256 / 8) with 32 in Hlen.
    unfold wf_udata. cbn [d_type d_data d_filesize d_blocksizes d_hashtype d_fanout d_mode d_mtime].
    change (2 ^ 64) with 18446744073709551616. unfold Data_HAMTShard, HashMurmur3, defaultShardWidth.
    fold (blen (bf_bytes 256 (bitmap_of cs))). repeat split; try lia. constructor.
  Qed.

  Lemma dir_all2_from b rest : forall nw,
    Forall2 (fun e ent => exists csz, import W chunk hash (snd e) = Ok (e_target ent, csz)) rest nw ->
    tame2_all rest ->
    Forall (fun e => tame2 (snd e) -> forall b sz, import W chunk hash (snd e) = Ok (b, sz) -> denotes2 (snd e) b) rest ->
    (forall ent, In ent nw -> dir_lookup b (e_name ent) = Ok (e_target ent)) ->
    map e_name nw = map fst rest ->
    dir_all2 b rest.
  Proof.
    induction rest as [|[name child] rest IHr]; intros nw Hf Hta IH Hmem Hn; [exact I|].
    inversion Hf as [|? ent ? nw' (csz & Hc) Hf']; subst. cbn [map fst e_name] in Hn. inversion Hn as [[Hname Hn']].
    inversion IH as [|? ? IHc IHrest]; subst. destruct Hta as [Htc Htr]. cbn [snd] in *.
    split.
    - exists (e_target ent). split; [apply Hmem; left; reflexivity|apply (IHc Htc _ _ Hc)].
    - apply (IHr nw' Hf' Htr IHrest); [intros e He; apply Hmem; right; exact He|exact Hn'].
  Qed.

  Theorem import_denotes2 t : tame2 t -> forall b sz, import W chunk hash t = Ok (b, sz) -> denotes2 t b.
  Proof.
    induction t as [c|x| |entries IH] using fsnode_ind'; intros Ht b sz Hi.
    - cbn in Hi, Ht. destruct (build_file_ok W HW (chunk c) ltac:(rewrite chunk_concat; exact Ht)) as (root & sz' & Hb & Hc & Hw & _).
      rewrite Hb in Hi. inversion Hi; subst. cbn. rewrite Hc, chunk_concat. auto.
    - cbn in Hi. inversion Hi; subst. reflexivity.
    - discriminate Hi.
    - rewrite import_dir in Hi. destruct Ht as (Hnd & Hne & Hta). fold tame2_all in Hta.
      destruct (import_links_spec2 entries [] b sz Hi) as (news & Hl & Hn & Hh & Hb & Hf). cbn [rev app] in Hb.
      change (dir_count b = Ok (N.of_nat (length entries)) /\ dir_all2 b entries).
      assert (Hnd' : NoDup (map e_name news)) by (rewrite Hn; exact Hnd).
      unfold build_dir in Hb.
      destruct (shardSplitThreshold <? estimate_dir_size news).
      + (* above the threshold: a HAMT of fanout 256 *)
        assert (Hperm : permitted defaultShardWidth 8) by (split; [reflexivity|lia]).
        assert (Hok : Forall (entry_ok hash) news).
        { apply Forall_forall. intros e He. split; [|rewrite Forall_forall in Hh; apply Hh; exact He].
          assert (Hi2 : In (e_name e) (map fst entries)) by (rewrite <- Hn; apply in_map; exact He).
          apply in_map_iff in Hi2. destruct Hi2 as (x & Ex & Hx). rewrite Forall_forall in Hne. rewrite <- Ex. apply Hne. exact Hx. }
        destruct (build_sharded_inv defaultShardWidth 8 Hperm hash hash_wf hash_len news b sz Hok Hb) as (cs & Eb & Hw & Hk & Hp).
        destruct (sharded_dir_is_map defaultShardWidth 8 Hperm hash hash_wf hash_len news b sz Hok Hnd' Hb) as (Hmem & _ & _ & Hlen).
        assert (Hty : dir_type b = Some Data_HAMTShard).
        { rewrite Eb, (ser_shard_blk defaultShardWidth). apply dir_type_shard. apply (keys_lt defaultShardWidth hash cs Hk). }
        assert (Hshape : exists d ls, b = Pb d ls) by (rewrite Eb, (ser_shard_blk defaultShardWidth); eauto).
        destruct Hshape as (d0 & ls0 & Eshape).
        split.
        * unfold dir_count. rewrite Hty. rewrite Eshape at 1. cbn [N.eqb]. change (Data_HAMTShard =? Data_Directory) with false.
          change (Data_HAMTShard =? Data_HAMTShard) with true. cbn iota. rewrite Hlen, Hl. reflexivity.
        * apply (dir_all2_from b entries news Hf Hta IH); [|exact Hn].
          intros ent He. unfold dir_lookup. rewrite Hty. rewrite Eshape at 1.
          change (Data_HAMTShard =? Data_Directory) with false. change (Data_HAMTShard =? Data_HAMTShard) with true. cbn iota.
          apply Hmem. exact He.
      + (* below: one plain directory block *)
        inversion Hb as [[Hb1 Hb2]]. unfold build_plain. cbn [fst].
        destruct (plain_dir_is_map news Hnd') as (Hmem & _ & _ & Hlen). fold (plain_links news).
        split.
        * unfold dir_count. rewrite dir_type_plain. change (Data_Directory =? Data_Directory) with true. cbn iota.
          unfold plain_links in Hlen. unfold plain_links. rewrite Hlen, Hl, <- nat_N_Z, N2Z.id. reflexivity.
        * apply (dir_all2_from _ entries news Hf Hta IH); [|exact Hn].
          intros ent He. unfold dir_lookup. rewrite dir_type_plain. change (Data_Directory =? Data_Directory) with true. cbn iota.
          apply Hmem. exact He.
  Qed.
End P.
