(* End to end: import a filesystem tree, then resolve a path over the stored blocks.  Every path of the on-disk tree
   resolves — through plain and sharded directories alike — to the block that denotes the named file, directory or symlink. *)
From UV Require Import Build.FsImport Build.FsImportProofs Build.FsImportSharded File.Spec Hamt.Read Hamt.Refine Sel.PathLoads.
From UV Require Import Dir.Plain.
From Coq Require Import ZifyN ZifyNat ZifyBool.
Local Open Scope N_scope.

(* the on-disk tree resolved by names *)
Fixpoint fs_resolve (t : fsnode) (segs : list bytes) : option fsnode :=
  match segs with
  | [] => Some t
  | s :: r =>
    match t with
    | FDir entries =>
      match find (fun e => bytes_eqb (fst e) s) entries with
      | Some e => fs_resolve (snd e) r
      | None => None
      end
    | _ => None
    end
  end.

Section P.
  Variable hash : bytes -> bytes.

  Lemma dir_step_is_dir_lookup b s : fst (dir_step nofault hash b s) = dir_lookup hash b s.
  Proof.
    unfold dir_step, dir_lookup, node_type, dir_type.
    destruct b as [c|[d|] ls|i n]; try reflexivity.
    destruct (decode_data d) as [m| |]; try reflexivity.
    destruct (d_type m =? Data_Directory); [reflexivity|].
    destruct (d_type m =? Data_HAMTShard); reflexivity.
  Qed.

  Lemma dir_all2_find b entries s e :
    dir_all2 hash b entries -> find (fun e => bytes_eqb (fst e) s) entries = Some e ->
    exists cb, dir_lookup hash b s = Ok cb /\ denotes2 hash (snd e) cb.
  Proof.
    induction entries as [|[name child] r IH]; intros Hall Hf; [discriminate|].
    cbn [dir_all2] in Hall. destruct Hall as [(cb & Hl & Hd) Hr]. cbn [find fst] in Hf.
    destruct (bytes_eqb_spec name s) as [->|_].
    - inversion Hf; subst. exists cb. split; [exact Hl|exact Hd].
    - apply IH; assumption.
  Qed.

  Theorem denoted_tree_resolves segs : forall t b n,
    denotes2 hash t b -> fs_resolve t segs = Some n ->
    exists b', fst (walk_path nofault hash b segs) = Ok b' /\ denotes2 hash n b'.
  Proof.
    induction segs as [|s r IH]; intros t b n Hd Hr.
    - inversion Hr; subst. exists b. split; [reflexivity|exact Hd].
    - cbn [fs_resolve] in Hr. destruct t as [c|entries|target|]; try discriminate.
      destruct (find (fun e => bytes_eqb (fst e) s) entries) as [e|] eqn:Ef; [|discriminate].
      change (dir_count b = Ok (N.of_nat (length entries)) /\ dir_all2 hash b entries) in Hd. destruct Hd as [_ Hall].
      destruct (dir_all2_find b entries s e Hall Ef) as (cb & Hl & Hdc).
      destruct (IH (snd e) cb n Hdc Hr) as (b' & Hw & Hn).
      exists b'. split; [|exact Hn].
      cbn [walk_path]. pose proof (dir_step_is_dir_lookup b s) as Hs. rewrite Hl in Hs.
      destruct (dir_step nofault hash b s) as [r0 tr]. cbn [fst] in Hs. subst r0.
      unfold nofault at 1. destruct (walk_path nofault hash cb r) as [res tr']. cbn [fst] in *. exact Hw.
  Qed.
End P.

(* BuildUnixFSRecursive, then path resolution over the blocks it stored *)
Theorem import_then_resolve W (HW : (2 <= W)%nat) chunk (Hc : forall b, concat (chunk b) = b)
  hash (Hwf : forall k, wf_bytes (hash k) = true) (Hlen : forall k, length (hash k) = 8%nat) t b sz segs n :
  tame2 t -> import W chunk hash t = Ok (b, sz) -> fs_resolve t segs = Some n ->
  exists b', fst (walk_path nofault hash b segs) = Ok b' /\ denotes2 hash n b'.
Proof.
  intros Ht Hi Hr. apply (denoted_tree_resolves hash segs t b n); [|exact Hr].
  apply (import_denotes2 W HW chunk Hc hash Hwf Hlen t Ht b sz Hi).
Qed.

(* ... and when the path names a regular file, reading the resolved block returns the on-disk bytes: as a whole, under
   every Seek/Read history, with the true length *)
From UV Require Import File.Compose.
Theorem import_resolve_read W (HW : (2 <= W)%nat) chunk (Hc : forall b, concat (chunk b) = b)
  hash (Hwf : forall k, wf_bytes (hash k) = true) (Hlen : forall k, length (hash k) = 8%nat) t b sz segs c :
  tame2 t -> import W chunk hash t = Ok (b, sz) -> fs_resolve t segs = Some (FFile c) ->
  exists b', fst (walk_path nofault hash b segs) = Ok b'
    /\ fst (fst (drain_all (stream Spec.nofault b' 0) [] [])) = c
    /\ snd (drain_all (stream Spec.nofault b' 0) [] []) = StEOF
    /\ (forall ops, map forget_loads (reader_run Spec.nofault b' rs0 ops) = abs_run c 0 ops)
    /\ node_length b' = Ok (zlen c).
Proof.
  intros Ht Hi Hr.
  destruct (import_then_resolve W HW chunk Hc hash Hwf Hlen t b sz segs (FFile c) Ht Hi Hr) as (b' & Hw & Hd).
  exists b'. split; [exact Hw|]. cbn [denotes2] in Hd. destruct Hd as [Hws <-].
  apply (read_well_sized b' Hws).
Qed.
