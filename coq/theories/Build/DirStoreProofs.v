(* C16 for the directory builders: shard.serialize commits every child shard before its parent, a failed write gives an
   error and no link, a returned link's whole DAG is committed — for every trie and every plan of failing writes. *)
From UV Require Import Build.Store Build.StoreProofs Blocks.BlkProofs Hamt.SortProofs Hamt.TrieProofs Hamt.Refine.
From Coq Require Import Permutation ZifyN ZifyNat ZifyBool.
Local Open Scope N_scope.

Section DirStore.
  Variable fail_open fail_commit : N -> option N.
  Variable size : N.
  Notation width := (pad_len size).
  Notation ser := (serialize_node size HashMurmur3 width).
  Notation ser_s := (serialize_s fail_open fail_commit size HashMurmur3 width).
  Notation store_checked := (store_checked fail_open fail_commit).
  Notation sound := (sound fail_open fail_commit).
  Notation link_of := (Refine.link_of size).

  Definition ser_step :=
    fix go (cs : list (N * bnode)) (s : wstate) : res unit * wstate :=
      match cs with
      | [] => (Ok tt, s)
      | (_, c) :: r =>
        match c with
        | BVal _ => go r s
        | BShard _ =>
          match ser_s c s with
          | (Ok _, s') => go r s'
          | (Err e, s') => (Err e, s')
          | (Panic, s') => (Panic, s')
          end
        end
      end.

  Lemma serialize_s_shard cs s :
    ser_s (BShard cs) s =
    match ser_step cs s with
    | (Ok _, s') =>
      let '(b, sz) := ser (BShard cs) in
      match store_checked b s' with
      | (Ok _, s'') => (Ok (b, sz), s'')
      | (Err e, s'') => (Err e, s'')
      | (Panic, s'') => (Panic, s'')
      end
    | (Err e, s') => (Err e, s')
    | (Panic, s') => (Panic, s')
    end.
  Proof. reflexivity. Qed.

  (* the entries of the directory are not part of this build (files and directories stored before) *)
  Definition external (n : bnode) : Prop := forall e, In e (entries_of n) -> is_ext (e_target e) = true.

  Definition good (n : bnode) : Prop :=
    forall cs, n = BShard cs -> external n ->
    forall s r s', ser_s n s = (r, s') -> dfree (ws_trace s) ->
      dfree (ws_trace s') /\ extends s s'
      /\ match r with
         | Ok a => a = ser n /\ In (fst (ser n)) (ws_trace s') /\ (clean s -> clean s') /\ (no_failure fail_open fail_commit s -> no_failure fail_open fail_commit s')
         | _ => True
         end.

  Lemma ser_step_sound cs : Forall (fun kc => good (snd kc)) cs -> external (BShard cs) ->
    forall s r s', ser_step cs s = (r, s') -> dfree (ws_trace s) ->
      dfree (ws_trace s') /\ extends s s'
      /\ match r with
         | Ok _ => (forall b sub, In (b, BShard sub) cs -> In (fst (ser (BShard sub))) (ws_trace s'))
                   /\ (clean s -> clean s') /\ (no_failure fail_open fail_commit s -> no_failure fail_open fail_commit s')
         | _ => True
         end.
  Proof.
    induction 1 as [|[b c] r0 Hc _ IH]; intros Hext s r s' Hs Hd.
    - inversion Hs; subst. split; [exact Hd|]. split; [apply extends_refl|]. split; [intros ? ? []|auto].
    - assert (Hext' : external (BShard r0)).
      { intros e He. apply Hext. cbn [entries_of flat_map]. apply in_or_app. right. exact He. }
      cbn [ser_step] in Hs. destruct c as [e|sub].
      + destruct (IH Hext' s r s' Hs Hd) as (Hd' & He & Hr). split; [exact Hd'|]. split; [exact He|].
        destruct r as [u| |]; auto. destruct Hr as (Hin & Hcl & Hnf). split; [|auto].
        intros b0 sub0 [E|Hi]; [discriminate|]. apply (Hin b0 sub0 Hi).
      + cbn [snd] in Hc.
        assert (Hextc : external (BShard sub)).
        { intros e He. apply Hext. cbn [entries_of flat_map snd]. apply in_or_app. left. exact He. }
        destruct (ser_s (BShard sub) s) as [r1 s1] eqn:E1.
        destruct (Hc sub eq_refl Hextc s r1 s1 E1 Hd) as (Hd1 & He1 & Hr1).
        destruct r1 as [a| |].
        * destruct (IH Hext' s1 r s' Hs Hd1) as (Hd' & He' & Hr). split; [exact Hd'|]. split; [eapply extends_trans; eassumption|].
          destruct r as [u| |]; auto. destruct Hr as (Hin & Hcl & Hnf). destruct Hr1 as (_ & Hin1 & Hcl1 & Hnf1). split; [|auto].
          intros b0 sub0 [E|Hi]; [inversion E; subst; eapply extends_in; eassumption|apply (Hin b0 sub0 Hi)].
        * inversion Hs; subst. auto.
        * inversion Hs; subst. auto.
  Qed.

  Lemma serialize_s_good n : good n.
  Proof.
    induction n as [e|cs0 IH] using bnode_ind'; intros cs En Hext s r s' Hs Hd; [discriminate|]. inversion En; subst cs0. clear En.
    rewrite serialize_s_shard in Hs.
    destruct (ser_step cs s) as [r1 s1] eqn:E1.
    destruct (ser_step_sound cs IH Hext s r1 s1 E1 Hd) as (Hd1 & He1 & Hr1).
    destruct r1 as [u| |]; [|inversion Hs; subst; auto|inversion Hs; subst; auto].
    destruct Hr1 as (Hin & Hcl & Hnf).
    destruct (ser (BShard cs)) as [b sz] eqn:Eser.
    assert (Eb : b = fst (ser (BShard cs))) by (rewrite Eser; reflexivity).
    destruct (store_checked b s1) as [r2 s2] eqn:E2.
    assert (Hkids : forall c, In c (kids b) -> In c (ws_trace s1)).
    { intros c Hc. rewrite Eb, (ser_shard_blk size) in Hc. cbn [kids] in Hc. apply filter_In in Hc. destruct Hc as [Hc Hne].
      apply in_map_iff in Hc. destruct Hc as (l & <- & Hl).
      apply (Permutation_in _ (Permutation_sym (sort_perm _))) in Hl. apply in_map_iff in Hl. destruct Hl as ([k ch] & <- & Hkc).
      destruct ch as [e|sub].
      - exfalso. rewrite tgt_val in Hne. rewrite (Hext e) in Hne; [discriminate|].
        cbn [entries_of]. apply in_flat_map. exists (k, BVal e). split; [exact Hkc|left; reflexivity].
      - rewrite tgt_shard. apply (Hin k sub Hkc). }
    destruct (store_spec fail_open fail_commit b s1 r2 s2 E2 Hd1 Hkids) as (Hd2 & He2 & Hr2).
    destruct r2 as [b'| |]; inversion Hs; subst r s'; (split; [exact Hd2|]); (split; [eapply extends_trans; eassumption|]); auto.
    destruct Hr2 as (_ & Hinb & Hcl2 & Hnf2). split; [reflexivity|]. cbn [fst]. auto.
  Qed.
End DirStore.

(* C16 for BuildUnixFSShardedDirectory, for every fanout, entry list and failure plan *)
Theorem sharded_build_store_safe fo fc size entries lnk sz err s' :
  (forall e, In e entries -> is_ext (e_target e) = true) ->
  BuildUnixFSShardedDirectory fo fc size HashMurmur3 entries ws0 = ((lnk, sz, err), s') ->
  (forall pre post, ws_trace s' = pre ++ post -> dfree pre)
  /\ (err <> None -> lnk = None)
  /\ (err = None -> exists root, lnk = Some root /\ (forall x, In x (built_blocks root) -> In x (ws_trace s'))
                               /\ no_failure fo fc s' /\ clean s').
Proof.
  intros Hext. unfold BuildUnixFSShardedDirectory.
  destruct (log2_exact size) as [lg|]; [|intros [= <- <- <- <-]; split; [intros pre post E; destruct pre; [constructor|discriminate]|split; [reflexivity|discriminate]]].
  destruct (add_all lg entries) as [cs| |] eqn:Ea;
    [|intros [= <- <- <- <-]; split; [intros pre post E; destruct pre; [constructor|discriminate]|split; [reflexivity|discriminate]]
     |intros [= <- <- <- <-]; split; [intros pre post E; destruct pre; [constructor|discriminate]|split; [reflexivity|discriminate]]].
  destruct (negb (size mod 8 =? 0));
    [intros [= <- <- <- <-]; split; [intros pre post E; destruct pre; [constructor|discriminate]|split; [reflexivity|discriminate]]|].
  destruct (serialize_s fo fc size HashMurmur3 (pad_len size) (BShard cs) ws0) as [r s1] eqn:Es.
  assert (Hextn : external (BShard cs)).
  { intros e He. apply Hext. destruct (add_all_spec lg entries cs Ea) as [_ Hp]. eapply Permutation_in; [exact Hp|exact He]. }
  destruct (serialize_s_good fo fc size (BShard cs) cs eq_refl Hextn ws0 r s1 Es dfree_nil) as (Hd & _ & Hr).
  intros Hres. assert (s1 = s') by (inversion Hres; reflexivity). subst s1.
  split; [intros pre post E; apply (dfree_prefix pre post); rewrite <- E; exact Hd|].
  destruct r as [[root sz']| |]; cbn [of_res] in Hres; inversion Hres; subst.
  - split; [congruence|]. intros _. exists root. split; [reflexivity|]. destruct Hr as (Er & Hin & Hc & Hn).
    assert (root = fst (serialize_node size HashMurmur3 (pad_len size) (BShard cs))) as -> by (rewrite <- Er; reflexivity).
    split; [apply (dfree_closed _ Hd _ Hin)|]. split; [apply Hn, no_failure_ws0|apply Hc, clean_ws0].
  - split; [reflexivity|discriminate].
  - split; [reflexivity|discriminate].
Qed.

(* the plain directory is one block *)
Theorem plain_build_store_safe fo fc entries lnk sz err s' :
  (forall e, In e entries -> is_ext (e_target e) = true) ->
  BuildUnixFSDirectoryPlain fo fc entries ws0 = ((lnk, sz, err), s') ->
  (forall pre post, ws_trace s' = pre ++ post -> dfree pre)
  /\ (err <> None -> lnk = None)
  /\ (err = None -> lnk = Some (fst (build_plain entries)) /\ In (fst (build_plain entries)) (ws_trace s')).
Proof.
  intros Hext. unfold BuildUnixFSDirectoryPlain, build_plain_s.
  destruct (build_plain entries) as [b sz0] eqn:Eb. cbn [fst].
  destruct (store_checked fo fc b ws0) as [r s1] eqn:Es.
  assert (Hk : forall c, In c (kids b) -> In c (ws_trace ws0)).
  { intros c Hc. exfalso. unfold build_plain in Eb. inversion Eb; subst b. cbn [kids] in Hc. apply filter_In in Hc. destruct Hc as [Hc Hne].
    apply in_map_iff in Hc. destruct Hc as (l & <- & Hl). apply (Permutation_in _ (Permutation_sym (sort_perm _))) in Hl.
    apply in_map_iff in Hl. destruct Hl as (e & <- & He). cbn in Hne. rewrite (Hext e He) in Hne. discriminate. }
  destruct (store_spec fo fc b ws0 r s1 Es dfree_nil Hk) as (Hd & _ & Hr).
  destruct r as [b'| |]; cbn [of_res]; intros [= <- <- <- <-].
  - split; [intros pre post E; apply (dfree_prefix pre post); rewrite <- E; exact Hd|]. split; [congruence|].
    intros _. destruct Hr as (_ & Hin & _). split; [reflexivity|exact Hin].
  - split; [intros pre post E; apply (dfree_prefix pre post); rewrite <- E; exact Hd|]. split; [reflexivity|discriminate].
  - split; [intros pre post E; apply (dfree_prefix pre post); rewrite <- E; exact Hd|]. split; [reflexivity|discriminate].
Qed.
