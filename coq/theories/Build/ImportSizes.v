(* C11 for the recursive importer: the size BuildUnixFSRecursive returns is the cumulative stored size of the DAG it
   built — files, symlinks, plain and sharded directories, at every level — and every link carries the cumulative size
   of its target, as long as the total stays below 2^64. *)
From UV Require Import Build.FsImport Build.FsImportProofs Build.FsImportSharded File.Spec File.BuilderProofs File.BuilderProofs2
  Dir.BuildProofs Hamt.SortProofs Hamt.Read Hamt.TrieProofs Hamt.ShardDecode Hamt.Refine Hamt.Canon Hamt.SizeProofs.
From Coq Require Import Permutation ZifyN ZifyNat ZifyBool.
Local Open Scope N_scope.

Definition csum (ls : list plink) : N := fold_right (fun l acc => cum_size (l_target l) + acc) 0 ls.

Lemma cum_size_pb d ls : cum_size (Pb d ls) = pb_len d ls + csum ls.
Proof. reflexivity. Qed.

Lemma csum_perm l l' : Permutation l l' -> csum l = csum l'.
Proof.
  induction 1 as [|x l l' _ IH|x y l|l l' l'' _ IH1 _ IH2]; [reflexivity| | |congruence].
  - change (cum_size (l_target x) + csum l = cum_size (l_target x) + csum l'). rewrite IH. reflexivity.
  - change (cum_size (l_target y) + (cum_size (l_target x) + csum l) = cum_size (l_target x) + (cum_size (l_target y) + csum l)). lia.
Qed.

Lemma csum_app a b : csum (a ++ b) = csum a + csum b.
Proof. induction a as [|x a IH]; cbn [app csum fold_right] in *; [reflexivity|]. fold (csum (a ++ b)) (csum a). lia. Qed.

Definition tsum (es : list entry) : N := nsum (map (fun e => cum_size (e_target e)) es).

(* ---- plain directories ---- *)
Lemma plain_cum entries :
  cum_size (fst (build_plain entries)) = enc_len (fst (build_plain entries)) + tsum entries.
Proof.
  unfold build_plain. cbn [fst]. rewrite cum_size_pb. cbn [enc_len]. f_equal.
  rewrite <- (csum_perm _ _ (sort_perm (map entry_link entries))).
  unfold tsum. induction entries as [|e r IH]; [reflexivity|]. cbn [map csum fold_right nsum]. fold (csum (map entry_link r)) (nsum (map (fun e => cum_size (e_target e)) r)).
  rewrite IH. reflexivity.
Qed.

(* ---- sharded directories ---- *)
Section Sharded.
  Variable size : N.
  Notation width := (pad_len size).
  Notation ser := (serialize_node size HashMurmur3 width).

  Lemma sharded_cum n : forall cs, n = BShard cs ->
    cum_size (fst (ser n)) = shard_bytes size HashMurmur3 n + tsum (entries_of n).
  Proof.
    induction n as [e|cs0 IH] using bnode_ind'; intros cs En; [discriminate|]. inversion En; subst cs0. clear En.
    rewrite shard_bytes_shard, (ser_shard_blk size), cum_size_pb. cbn [enc_len]. rewrite <- N.add_assoc. f_equal.
    rewrite <- (csum_perm _ _ (sort_perm (map (Refine.link_of size) cs))).
    cbn [entries_of]. unfold tsum.
    induction IH as [|[b c] r Hc _ IHr]; [reflexivity|].
    cbn [map csum fold_right flat_map snd shard_bytes_children]. fold (csum (map (Refine.link_of size) r)).
    rewrite map_app. assert (Hsum : forall a b0, nsum (a ++ b0) = nsum a + nsum b0).
    { intros a b0. induction a as [|x a IHa]; [reflexivity|]. cbn [app nsum fold_right] in *. fold (nsum (a ++ b0)) (nsum a). lia. }
    rewrite Hsum, IHr. cbn [snd] in Hc.
    destruct c as [e|sub].
    - rewrite tgt_val. cbn [shard_bytes entries_of map nsum fold_right]. lia.
    - rewrite tgt_shard. rewrite (Hc sub eq_refl). unfold tsum. lia.
  Qed.
End Sharded.

(* entries whose recorded size is the cumulative size of their target *)
Definition sized (e : entry) : Prop := e_tsize e = Z.of_N (cum_size (e_target e)) /\ cum_size (e_target e) < 2 ^ 64.

Lemma sized_entry_size e : sized e -> entry_size e = cum_size (e_target e).
Proof.
  intros [Ht Hb]. unfold entry_size, u64. rewrite Ht.
  change 18446744073709551616%Z with (Z.of_N 18446744073709551616). rewrite <- N2Z.inj_mod, N2Z.id.
  apply N.mod_small. exact Hb.
Qed.

Lemma sized_sum es : Forall sized es -> nsum (map entry_size es) = tsum es.
Proof.
  unfold tsum. induction 1 as [|e r He _ IH]; [reflexivity|]. cbn [map nsum fold_right].
  fold (nsum (map entry_size r)) (nsum (map (fun e => cum_size (e_target e)) r)). rewrite IH, (sized_entry_size e He). reflexivity.
Qed.

Lemma tsum_perm a b : Permutation a b -> tsum a = tsum b.
Proof. intros Hp. unfold tsum. apply nsum_perm, Permutation_map. exact Hp. Qed.

Theorem plain_size_is_cum entries : Forall sized entries -> snd (build_plain entries) = cum_size (fst (build_plain entries)).
Proof.
  intros Hs. destruct (plain_size_is_cumulative entries) as [Hsz _]. rewrite Hsz, plain_cum, (sized_sum entries Hs). reflexivity.
Qed.

Theorem sharded_size_is_cum size lg entries root sz :
  Forall sized entries -> log2_exact size = Some lg -> build_sharded size HashMurmur3 entries = Ok (root, sz) -> sz = cum_size root.
Proof.
  intros Hs Hl Hb. unfold build_sharded in Hb. rewrite Hl in Hb.
  destruct (add_all lg entries) as [cs| |] eqn:Ea; try discriminate. cbn [bind] in Hb.
  destruct (negb (size mod 8 =? 0)); [discriminate|].
  set (p := serialize_node size HashMurmur3 (pad_len size) (BShard cs)) in *.
  assert (Hr : p = (root, sz)) by congruence.
  destruct (add_all_spec lg entries cs Ea) as [_ Hp].
  assert (E1 : sz = snd p) by (rewrite Hr; reflexivity). assert (E2 : root = fst p) by (rewrite Hr; reflexivity).
  rewrite E1, E2. unfold p.
  rewrite (sharded_size_is_cumulative size HashMurmur3 (BShard cs) cs eq_refl), (sharded_cum size (BShard cs) cs eq_refl).
  f_equal. change (entries_of (BShard cs)) with (entries_in cs).
  rewrite (nsum_perm _ _ (Permutation_map entry_size Hp)), (tsum_perm _ _ Hp). apply sized_sum. exact Hs.
Qed.

(* each entry's target is part of the directory's DAG: its cumulative size is bounded by the directory's *)
Lemma tsum_in e es : In e es -> cum_size (e_target e) <= tsum es.
Proof.
  unfold tsum. induction es as [|x r IH]; intros Hin; [destruct Hin|]. cbn [map nsum fold_right].
  fold (nsum (map (fun e => cum_size (e_target e)) r)). destruct Hin as [->|Hin]; [lia|]. specialize (IH Hin). lia.
Qed.

Section Import.
  Variable W : nat.
  Hypothesis HW : (2 <= W)%nat.
  Variable chunk : bytes -> list bytes.
  Hypothesis chunk_concat : forall b, concat (chunk b) = b.
  Variable hash : bytes -> bytes.

  Lemma import_links_spec3 es : forall acc b sz,
    import_links W chunk hash es acc = Ok (b, sz) ->
    exists news, build_dir (rev acc ++ news) = Ok (b, sz)
                 /\ Forall2 (fun e ent => exists csz, import W chunk hash (snd e) = Ok (e_target ent, csz) /\ e_tsize ent = Z.of_N csz) es news.
  Proof.
    induction es as [|[name child] rest IH]; intros acc b sz Hi.
    - exists []. cbn in *. rewrite app_nil_r. split; [exact Hi|constructor].
    - cbn [import_links] in Hi. destruct (import W chunk hash child) as [[cb csz]| |] eqn:Ec; try discriminate.
      destruct (IH _ _ _ Hi) as (news & Hb & Hf).
      exists (mk_entry name (hash name) (Z.of_N csz) cb :: news). split.
      + cbn [rev] in Hb. rewrite <- app_assoc in Hb. exact Hb.
      + constructor; [|exact Hf]. exists csz. split; [exact Ec|reflexivity].
  Qed.

  (* files below 2^63 bytes (the importer's own limit), anywhere in the tree *)
  Fixpoint files_fit (t : fsnode) : Prop :=
    match t with
    | FFile c => blen c < bound63
    | FDir entries => (fix all (es : list (bytes * fsnode)) : Prop := match es with [] => True | (_, c) :: r => files_fit c /\ all r end) entries
    | _ => True
    end.
  Definition files_fit_all := fix all (es : list (bytes * fsnode)) : Prop := match es with [] => True | (_, c) :: r => files_fit c /\ all r end.

  Theorem import_size_is_cumulative t : files_fit t -> forall b sz,
    import W chunk hash t = Ok (b, sz) -> cum_size b < 2 ^ 64 -> sz = cum_size b.
  Proof.
    induction t as [c|x| |entries IH] using fsnode_ind'; intros Hfit b sz Hi Hlt.
    - cbn in Hi, Hfit. destruct (build_file_ok W HW (chunk c) ltac:(rewrite chunk_concat; exact Hfit)) as (root & sz' & Hb & _ & _ & Hsz & _).
      rewrite Hb in Hi. inversion Hi; subst. reflexivity.
    - cbn [import] in Hi. inversion Hi; subst. unfold symlink_blk. rewrite cum_size_pb. cbn [enc_len csum fold_right]. lia.
    - discriminate Hi.
    - rewrite import_dir in Hi. destruct (import_links_spec3 entries [] b sz Hi) as (news & Hb & Hf). cbn [rev app] in Hb.
      change (files_fit_all entries) in Hfit.
      (* once the entries are known to be sized, both directory forms return the cumulative size *)
      assert (Hsized : (forall e, In e news -> cum_size (e_target e) < 2 ^ 64) -> Forall sized news).
      { intros Hbound. clear Hb Hi. revert news Hf Hbound. induction entries as [|[name child] rest IHr]; intros news Hf Hbound.
        - inversion Hf; subst. constructor.
        - inversion Hf as [|? ent ? nw' (csz & Hc & Ht) Hf']; subst. inversion IH as [|? ? IHc IHrest]; subst. destruct Hfit as [Hfc Hfr].
          constructor.
          + cbn [snd] in *. assert (Hlt' : cum_size (e_target ent) < 2 ^ 64) by (apply Hbound; left; reflexivity).
            split; [|exact Hlt']. rewrite Ht. f_equal. apply (IHc Hfc _ _ Hc Hlt').
          + apply (IHr IHrest Hfr nw' Hf'). intros e He. apply Hbound. right. exact He. }
      unfold build_dir in Hb. destruct (shardSplitThreshold <? estimate_dir_size news).
      + (* sharded: every target is below the root's cumulative size by the structure of the shard DAG *)
        assert (Hl : log2_exact defaultShardWidth = Some 8) by reflexivity.
        pose proof Hb as Hb0. unfold build_sharded in Hb0. rewrite Hl in Hb0.
        destruct (add_all 8 news) as [cs| |] eqn:Ea; try discriminate. cbn [bind] in Hb0.
        destruct (negb (defaultShardWidth mod 8 =? 0)); [discriminate|].
        assert (Er : b = fst (serialize_node defaultShardWidth HashMurmur3 (pad_len defaultShardWidth) (BShard cs))).
        { set (p := serialize_node defaultShardWidth HashMurmur3 (pad_len defaultShardWidth) (BShard cs)) in *.
          assert (p = (b, sz)) as -> by congruence. reflexivity. }
        destruct (add_all_spec 8 news cs Ea) as [_ Hp].
        assert (Hcum : cum_size b = shard_bytes defaultShardWidth HashMurmur3 (BShard cs) + tsum news).
        { rewrite Er, (sharded_cum defaultShardWidth (BShard cs) cs eq_refl). f_equal. apply tsum_perm. exact Hp. }
        apply (sharded_size_is_cum defaultShardWidth 8 news b sz); [|exact Hl|exact Hb].
        apply Hsized. intros e He. pose proof (tsum_in e news He). lia.
      + assert (Ep : build_plain news = (b, sz)) by congruence.
        assert (Eb : b = fst (build_plain news)) by (rewrite Ep; reflexivity).
        assert (Es : sz = snd (build_plain news)) by (rewrite Ep; reflexivity).
        pose proof (plain_cum news) as Hcum. rewrite <- Eb in Hcum.
        rewrite Es, Eb. apply plain_size_is_cum. apply Hsized. intros e He. pose proof (tsum_in e news He). lia.
  Qed.
End Import.
