(* Builders with their storage effects: every LinkSystem.Store is an open followed by a commit; the
   k-th open or the k-th commit may fail (any k).  data/builder/file.go, dirshard.go, directory.go. *)
From UV Require Export File.Builder Hamt.Build.
Local Open Scope N_scope.

Record wstate := mk_ws { ws_opens : N; ws_commits : N; ws_trace : list blk }.   (* trace: committed blocks, oldest first *)
Definition ws0 := mk_ws 0 0 [].

Section Store.
  Variable fail_open : N -> option N.      (* the k-th (1-based) StorageWriteOpener call fails with this kind *)
  Variable fail_commit : N -> option N.    (* the k-th commit fails with this kind *)

  (* LinkSystem.Store: (link, error); on an open failure there is no link, on a commit failure the
     link has been computed but the block is not in the store *)
  Definition store (b : blk) (s : wstate) : res blk * option blk * wstate :=
    let o := ws_opens s + 1 in
    match fail_open o with
    | Some k => (Err (EStore k), None, mk_ws o (ws_commits s) (ws_trace s))
    | None =>
      let c := ws_commits s + 1 in
      match fail_commit c with
      | Some k => (Err (EStore k), Some b, mk_ws o c (ws_trace s))
      | None => (Ok b, Some b, mk_ws o c (ws_trace s ++ [b]))
      end
    end.

  (* sizedStore as used by the builders: callers check the error and drop the link *)
  Definition store_checked (b : blk) (s : wstate) : res blk * wstate :=
    let '(r, _, s') := store b s in (r, s').

  Section File.
    Variable W : nat.

    Fixpoint fill_s (rec : list bytes -> wstate -> res (option meta * list bytes) * wstate)
             (n : nat) (acc : list meta) (src : list bytes) (s : wstate) : res (list meta * list bytes) * wstate :=
      match n with
      | O => (Ok (acc, src), s)
      | S n' =>
        match rec src s with
        | (Ok (Some m, src'), s') => fill_s rec n' (acc ++ [m]) src' s'
        | (Ok (None, src'), s') => (Ok (acc, src'), s')
        | (Err e, s') => (Err e, s')
        | (Panic, s') => (Panic, s')
        end
      end.

    Fixpoint ftr_s (depth : nat) (seeded : list meta) (src : list bytes) (s : wstate) : res (option meta * list bytes) * wstate :=
      match depth with
      | O => (Err EOther, s)
      | S d =>
        match d with
        | O =>
          match seeded with
          | _ :: _ => (Err EOther, s)
          | [] => match src with
                  | [] => (Ok (None, []), s)
                  | c :: r => match store_checked (Raw c) s with
                              | (Ok _, s') => (Ok (Some (mk_leaf c), r), s')
                              | (Err e, s') => (Err e, s')
                              | (Panic, s') => (Panic, s')
                              end
                  end
          end
        | S _ =>
          match fill_s (ftr_s d []) (W - length seeded) seeded src s with
          | (Ok (children, src'), s') =>
            match children with
            | [] => (Ok (None, src'), s')
            | [c] => if Nat.eqb (length seeded) 1 then (Ok (Some c, src'), s')
                     else match store_checked (m_link (mk_node children)) s' with
                          | (Ok _, s'') => (Ok (Some (mk_node children), src'), s'')
                          | (Err e, s'') => (Err e, s'')
                          | (Panic, s'') => (Panic, s'')
                          end
            | _ => match store_checked (m_link (mk_node children)) s' with
                   | (Ok _, s'') => (Ok (Some (mk_node children), src'), s'')
                   | (Err e, s'') => (Err e, s'')
                   | (Panic, s'') => (Panic, s'')
                   end
            end
          | (Err e, s') => (Err e, s')
          | (Panic, s') => (Panic, s')
          end
        end
      end.

    Fixpoint build_loop_s (fuel depth : nat) (prev : meta) (src : list bytes) (s : wstate) : res (blk * N) * wstate :=
      match fuel with
      | O => (Err EOther, s)
      | S f =>
        match ftr_s depth [prev] src s with
        | (Ok (Some next, src'), s') =>
          if blk_eqb (m_link prev) (m_link next) then (Ok (m_link next, m_stored next), s')
          else build_loop_s f (S depth) next src' s'
        | (Ok (None, _), s') => (Err EOther, s')
        | (Err e, s') => (Err e, s')
        | (Panic, s') => (Panic, s')
        end
      end.

    (* BuildUnixFSFile: (link, size) or an error; never a link together with an error *)
    Definition build_file_s (chunks : list bytes) (s : wstate) : res (blk * N) * wstate :=
      match chunks with
      | [] => match store_checked (Raw []) s with
              | (Ok _, s') => (Ok (Raw [], 0), s')
              | (Err e, s') => (Err e, s')
              | (Panic, s') => (Panic, s')
              end
      | c :: r =>
        match store_checked (Raw c) s with
        | (Ok _, s') => build_loop_s (S (S (length r))) 2 (mk_leaf c) r s'
        | (Err e, s') => (Err e, s')
        | (Panic, s') => (Panic, s')
        end
      end.
  End File.

  (* BuildUnixFSSymlink: one block *)
  Definition symlink_blk (target : bytes) : blk :=
    Pb (Some (encode_data (mk_ud Data_Symlink (Some target) None [] None None None None))) [].
  Definition build_symlink_s (target : bytes) (s : wstate) : res (blk * N) * wstate :=
    match store_checked (symlink_blk target) s with
    | (Ok b, s') => (Ok (b, enc_len b), s')
    | (Err e, s') => (Err e, s')
    | (Panic, s') => (Panic, s')
    end.

  (* plain directory: one block *)
  Definition build_plain_s (entries : list entry) (s : wstate) : res (blk * N) * wstate :=
    let '(b, sz) := build_plain entries in
    match store_checked b s with
    | (Ok _, s') => (Ok (b, sz), s')
    | (Err e, s') => (Err e, s')
    | (Panic, s') => (Panic, s')
    end.

  (* shard.serialize: child shards are serialised (and stored) while the parent's links are assembled,
     the parent is stored last; the order among siblings is the Go map order (here: list order) *)
  Section Shard.
    Variables (size hasher : N) (width : nat).
    Fixpoint serialize_s (n : bnode) (s : wstate) : res (blk * N) * wstate :=
      match n with
      | BVal e => (Ok (e_target e, u64 (e_tsize e)), s)
      | BShard children =>
        let step :=
            (fix go (cs : list (N * bnode)) (s : wstate) : res unit * wstate :=
               match cs with
               | [] => (Ok tt, s)
               | (_, c) :: r =>
                 match c with
                 | BVal _ => go r s
                 | BShard _ =>
                   match serialize_s c s with
                   | (Ok _, s') => go r s'
                   | (Err e, s') => (Err e, s')
                   | (Panic, s') => (Panic, s')
                   end
                 end
               end) children s in
        match step with
        | (Ok _, s') =>
          let '(b, sz) := serialize_node size hasher width n in
          match store_checked b s' with
          | (Ok _, s'') => (Ok (b, sz), s'')
          | (Err e, s'') => (Err e, s'')
          | (Panic, s'') => (Panic, s'')
          end
        | (Err e, s') => (Err e, s')
        | (Panic, s') => (Panic, s')
        end
      end.
  End Shard.
End Store.

(* ---- the exported builders as Go returns them: (link, size, error) ---- *)
Definition goret := (option blk * N * option err)%type.

Section GoReturns.
  Variable fail_open : N -> option N.
  Variable fail_commit : N -> option N.

  Definition of_res (r : res (blk * N)) : goret :=
    match r with
    | Ok (b, sz) => (Some b, sz, None)
    | Err e => (None, 0, Some e)
    | Panic => (None, 0, Some EOther)
    end.

  (* BuildUnixFSFile: the empty-input branch stores the empty leaf itself and must drop the link on error *)
  Definition BuildUnixFSFile (W : nat) (chunks : list bytes) (s : wstate) : goret * wstate :=
    match chunks with
    | [] =>
      let '(r, lnk, s') := store fail_open fail_commit (Raw []) s in
      match r with
      | Ok _ => ((lnk, 0, None), s')
      | Err e => ((None, 0, Some e), s')
      | Panic => ((None, 0, Some EOther), s')
      end
    | _ => let '(r, s') := build_file_s fail_open fail_commit W chunks s in (of_res r, s')
    end.

  Definition BuildUnixFSSymlink (target : bytes) (s : wstate) : goret * wstate :=
    let b := symlink_blk target in
    let '(r, lnk, s') := store fail_open fail_commit b s in
    match r with
    | Ok _ => ((lnk, enc_len b, None), s')
    | Err e => ((None, 0, Some e), s')
    | Panic => ((None, 0, Some EOther), s')
    end.

  Definition BuildUnixFSDirectoryPlain (entries : list entry) (s : wstate) : goret * wstate :=
    let '(r, s') := build_plain_s fail_open fail_commit entries s in (of_res r, s').

  Definition BuildUnixFSShardedDirectory (size hasher : N) (entries : list entry) (s : wstate) : goret * wstate :=
    match log2_exact size with
    | None => ((None, 0, Some EInvalid), s)
    | Some lg =>
      match add_all lg entries with
      | Ok children =>
        if negb (size mod 8 =? 0) then ((None, 0, Some EInvalid), s)
        else let '(r, s') := serialize_s fail_open fail_commit size hasher (pad_len size) (BShard children) s in (of_res r, s')
      | Err e => ((None, 0, Some e), s)
      | Panic => ((None, 0, Some EOther), s)
      end
    end.
End GoReturns.
