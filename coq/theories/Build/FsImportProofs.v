From UV Require Import Build.FsImport File.Spec File.BuilderProofs File.BuilderProofs2 Dir.Plain Dir.PlainProofs Dir.BuildProofs Hamt.SortProofs.
From Coq Require Import Permutation ZifyN ZifyNat ZifyBool.
Local Open Scope N_scope.

Section FsInd.
  Variable P : fsnode -> Prop.
  Hypothesis HFile : forall c, P (FFile c).
  Hypothesis HSym : forall t, P (FSymlink t).
  Hypothesis HOther : P FOther.
  Hypothesis HDir : forall entries, Forall (fun e => P (snd e)) entries -> P (FDir entries).
  Fixpoint fsnode_ind' (t : fsnode) : P t :=
    match t with
    | FFile c => HFile c
    | FSymlink x => HSym x
    | FOther => HOther
    | FDir entries =>
      HDir entries ((fix go (es : list (bytes * fsnode)) : Forall (fun e => P (snd e)) es :=
                       match es with
                       | [] => Forall_nil _
                       | (n, c) :: r => Forall_cons (n, c) (fsnode_ind' c) (go r)
                       end) entries)
    end.
End FsInd.

Section P.
  Variable W : nat.
  Hypothesis HW : (2 <= W)%nat.
  Variable chunk : bytes -> list bytes.
  Hypothesis chunk_concat : forall b, concat (chunk b) = b.
  Variable hash : bytes -> bytes.

  Definition import_links :=
    fix go (es : list (bytes * fsnode)) (acc : list entry) : res (blk * N) :=
      match es with
      | [] => build_dir (rev acc)
      | (name, child) :: r =>
        match import W chunk hash child with
        | Ok (b, sz) => go r (mk_entry name (hash name) (Z.of_N sz) b :: acc)
        | Err e => Err e
        | Panic => Panic
        end
      end.

  Lemma import_dir entries : import W chunk hash (FDir entries) = import_links entries [].
  Proof. reflexivity. Qed.

  Lemma import_links_rejects es : forall acc,
    Exists (fun e => forall r, import W chunk hash (snd e) <> Ok r) es -> forall r, import_links es acc <> Ok r.
  Proof.
    induction es as [|[name child] rest IH]; intros acc Hex r; [inversion Hex|].
    cbn [import_links]. destruct (import W chunk hash child) as [[b sz]| |] eqn:Ei; try discriminate.
    inversion Hex as [? ? H|? ? H]; subst; [exfalso; apply (H (b, sz)); exact Ei|]. apply IH. exact H.
  Qed.

  (* a tree containing anything other than regular files, directories and symlinks is never imported *)
  Theorem import_rejects t : has_other t = true -> forall r, import W chunk hash t <> Ok r.
  Proof.
    induction t as [c|x| |entries IH] using fsnode_ind'.
    - intros H. discriminate H.
    - intros H. discriminate H.
    - intros _ r H. discriminate H.
    - intros Hex r. change (existsb (fun e => has_other (snd e)) entries = true) in Hex. rewrite import_dir. apply import_links_rejects.
      apply existsb_exists in Hex. destruct Hex as (e & Hin & He).
      apply Exists_exists. exists e. split; [exact Hin|]. rewrite Forall_forall in IH. apply (IH e Hin He).
  Qed.

  (* ---- what a successful import denotes ---- *)
  Fixpoint denotes (t : fsnode) (b : blk) : Prop :=
    match t with
    | FFile c => well_sized b = true /\ content b = c
    | FSymlink target => b = symlink_blk target
    | FOther => False
    | FDir entries =>
      (* when the directory was written as a plain directory block (below the auto-shard threshold) *)
      forall ls, b = Pb (Some dir_data) ls ->
        dir_length ls = Z.of_nat (length entries)
        /\ (fix all (es : list (bytes * fsnode)) : Prop :=
              match es with
              | [] => True
              | (name, child) :: r => (exists cb, lookup_by_string ls name = Ok cb /\ denotes child cb) /\ all r
              end) entries
    end.

  Definition dir_all (ls : list plink) :=
    fix all (es : list (bytes * fsnode)) : Prop :=
      match es with
      | [] => True
      | (name, child) :: r => (exists cb, lookup_by_string ls name = Ok cb /\ denotes child cb) /\ all r
      end.

  (* the side conditions under which the statement is made: files below 2^63 bytes, names distinct
     within each directory, every directory below the auto-shard threshold (sharded directories are
     covered by the HAMT correspondence) *)
  Fixpoint tame (t : fsnode) : Prop :=
    match t with
    | FFile c => blen c < bound63
    | FDir entries =>
      NoDup (map fst entries)
      /\ (fix all (es : list (bytes * fsnode)) : Prop :=
            match es with [] => True | (_, c) :: r => tame c /\ all r end) entries
    | _ => True
    end.
  Definition tame_all :=
    fix all (es : list (bytes * fsnode)) : Prop :=
      match es with [] => True | (_, c) :: r => tame c /\ all r end.

  Lemma import_links_spec es : forall acc b sz,
    tame_all es ->
    import_links es acc = Ok (b, sz) ->
    exists news, length news = length es /\ map e_name news = map fst es
                 /\ build_dir (rev acc ++ news) = Ok (b, sz)
                 /\ Forall2 (fun e ent => (forall cb, e_target ent = cb -> True) /\
                                          exists csz, import W chunk hash (snd e) = Ok (e_target ent, csz)) es news.
  Proof.
    induction es as [|[name child] rest IH]; intros acc b sz Ht Hi.
    - exists []. cbn in *. rewrite app_nil_r. repeat split; auto.
    - cbn [import_links] in Hi. destruct (import W chunk hash child) as [[cb csz]| |] eqn:Ec; try discriminate.
      destruct Ht as [Htc Htr].
      destruct (IH _ _ _ Htr Hi) as (news & Hl & Hn & Hb & Hf).
      exists (mk_entry name (hash name) (Z.of_N csz) cb :: news). cbn [length map fst e_name].
      split; [lia|]. split; [f_equal; exact Hn|]. split.
      + cbn [rev] in Hb. rewrite <- app_assoc in Hb. exact Hb.
      + constructor; [|exact Hf]. split; [auto|]. exists csz. exact Ec.
  Qed.

  Lemma second_byte_of_data m : d_type m < 128 -> nth_error (encode_data m) 1 = Some (d_type m).
  Proof.
    intros H. unfold encode_data. change (enc_tag Data_DataTypeWireNum WT_Varint) with [8].
    unfold enc_varint. cbn [enc_varint_aux]. destruct (N.ltb_spec (d_type m) 128); [reflexivity|lia].
  Qed.

  Lemma shard_data_not_dir size hasher children : shard_data size hasher children <> dir_data.
  Proof.
    intros E. pose proof (f_equal (fun l => nth_error l 1) E) as H. cbn beta in H.
    unfold shard_data, dir_data in H. rewrite !second_byte_of_data in H by reflexivity. discriminate H.
  Qed.

  Lemma dir_all_from ls rest : forall nw,
    Forall2 (fun e ent => (forall cb, e_target ent = cb -> True) /\
                          exists csz, import W chunk hash (snd e) = Ok (e_target ent, csz)) rest nw ->
    tame_all rest ->
    Forall (fun e => tame (snd e) -> forall b sz, import W chunk hash (snd e) = Ok (b, sz) -> denotes (snd e) b) rest ->
    (forall ent, In ent nw -> lookup_by_string ls (e_name ent) = Ok (e_target ent)) ->
    map e_name nw = map fst rest ->
    dir_all ls rest.
  Proof.
    induction rest as [|[name child] rest IHr]; intros nw Hf Hta IH Hmem Hn; [exact I|].
    inversion Hf as [|? ent ? nw' [_ (csz & Hc)] Hf']; subst. cbn [map fst e_name] in Hn. inversion Hn as [[Hname Hn']].
    inversion IH as [|? ? IHc IHrest]; subst. destruct Hta as [Htc Htr].
    split.
    - exists (e_target ent). split.
      + apply Hmem. left. reflexivity.
      + apply (IHc Htc _ _ Hc).
    - apply (IHr nw' Hf' Htr IHrest); [intros e He; apply Hmem; right; exact He|exact Hn'].
  Qed.

  Theorem import_denotes t : tame t -> forall b sz, import W chunk hash t = Ok (b, sz) -> denotes t b.
  Proof.
    induction t as [c|x| |entries IH] using fsnode_ind'; intros Ht b sz Hi.
    - cbn in Hi, Ht. destruct (build_file_ok W HW (chunk c) ltac:(rewrite chunk_concat; exact Ht)) as (root & sz' & Hb & Hc & Hw & _).
      rewrite Hb in Hi. inversion Hi; subst. cbn. rewrite Hc, chunk_concat. auto.
    - cbn in Hi. inversion Hi; subst. reflexivity.
    - discriminate Hi.
    - rewrite import_dir in Hi. destruct Ht as [Hnd Hta]. fold tame_all in Hta.
      destruct (import_links_spec entries [] b sz Hta Hi) as (news & Hl & Hn & Hb & Hf). cbn [rev app] in Hb.
      change (forall ls, b = Pb (Some dir_data) ls -> dir_length ls = Z.of_nat (length entries) /\ dir_all ls entries).
      intros ls Hbl. unfold build_dir in Hb.
      destruct (shardSplitThreshold <? estimate_dir_size news).
      + (* sharded: the block is not a plain directory block *)
        exfalso. unfold build_sharded in Hb. destruct (log2_exact defaultShardWidth); [|discriminate].
        cbn [bind] in Hb. destruct (add_all n news); cbn [bind] in Hb; try discriminate.
        destruct (negb (defaultShardWidth mod 8 =? 0)); [discriminate|].
        inversion Hb as [[Hb1 Hb2]]. rewrite <- Hb1 in Hbl. cbn [serialize_node fst] in Hbl. inversion Hbl as [[Hd _]]; exact (shard_data_not_dir _ _ _ Hd).
      + inversion Hb as [[Hb1 Hb2]]. rewrite <- Hb1 in Hbl. unfold build_plain in Hbl. cbn [fst] in Hbl. inversion Hbl as [Hls]. clear Hbl.
        assert (Els : ls = plain_links news) by (symmetry; exact Hls). subst ls.
        assert (Hnd' : NoDup (map e_name news)) by (rewrite Hn; exact Hnd).
        destruct (plain_dir_is_map news Hnd') as (Hmem & _ & _ & Hlen).
        split; [unfold plain_links in Hlen; rewrite Hlen, Hl; reflexivity|].
        apply (dir_all_from (plain_links news) entries news Hf Hta IH); [|exact Hn].
        intros ent He. apply Hmem. exact He.
  Qed.
End P.
