(* C16 for BuildUnixFSRecursive: the importer with its storage effects.  Children (files, symlinks, sub-directories) are
   imported — and committed — before the directory that links to them; a failing write anywhere gives an error and no
   link; a returned link's whole DAG is in the store.  For every tree and every plan of failing opens / commits. *)
From UV Require Import Build.Store Build.StoreProofs Build.DirStoreProofs Build.FsImport Build.FsImportProofs
  Blocks.BlkProofs Hamt.SortProofs Hamt.TrieProofs Hamt.Refine.
From Coq Require Import Permutation ZifyN ZifyNat ZifyBool.
Local Open Scope N_scope.

Section ImportS.
  Variable fail_open fail_commit : N -> option N.
  Variable W : nat.
  Variable chunk : bytes -> list bytes.
  Variable hash : bytes -> bytes.
  Notation store_checked := (store_checked fail_open fail_commit).
  Notation sound := (sound fail_open fail_commit).
  Notation ser_s := (serialize_s fail_open fail_commit).
  Notation nofail := (no_failure fail_open fail_commit).

  (* BuildUnixFSDirectory with its writes *)
  Definition build_dir_s (entries : list entry) (s : wstate) : res (blk * N) * wstate :=
    if shardSplitThreshold <? estimate_dir_size entries then
      match log2_exact defaultShardWidth with
      | None => (Err EInvalid, s)
      | Some lg =>
        match add_all lg entries with
        | Ok children =>
          if negb (defaultShardWidth mod 8 =? 0) then (Err EInvalid, s)
          else ser_s defaultShardWidth HashMurmur3 (pad_len defaultShardWidth) (BShard children) s
        | Err e => (Err e, s)
        | Panic => (Panic, s)
        end
      end
    else build_plain_s fail_open fail_commit entries s.

  Fixpoint import_s (t : fsnode) (s : wstate) : res (blk * N) * wstate :=
    match t with
    | FOther => (Err EOther, s)
    | FFile c => build_file_s fail_open fail_commit W (chunk c) s
    | FSymlink target => build_symlink_s fail_open fail_commit target s
    | FDir entries =>
      (fix go (es : list (bytes * fsnode)) (acc : list entry) (s : wstate) : res (blk * N) * wstate :=
         match es with
         | [] => build_dir_s (rev acc) s
         | (name, child) :: r =>
           match import_s child s with
           | (Ok (b, sz), s') => go r (mk_entry name (hash name) (Z.of_N sz) b :: acc) s'
           | (Err e, s') => (Err e, s')
           | (Panic, s') => (Panic, s')
           end
         end) entries [] s
    end.

  Definition import_links_s :=
    fix go (es : list (bytes * fsnode)) (acc : list entry) (s : wstate) : res (blk * N) * wstate :=
      match es with
      | [] => build_dir_s (rev acc) s
      | (name, child) :: r =>
        match import_s child s with
        | (Ok (b, sz), s') => go r (mk_entry name (hash name) (Z.of_N sz) b :: acc) s'
        | (Err e, s') => (Err e, s')
        | (Panic, s') => (Panic, s')
        end
      end.
  Lemma import_s_dir entries s : import_s (FDir entries) s = import_links_s entries [] s.
  Proof. reflexivity. Qed.

  (* what is already stored (or lies outside the build) *)
  Definition avail (s : wstate) (b : blk) : Prop := is_ext b = true \/ In b (ws_trace s).
  Lemma avail_extends s s' b : extends s s' -> avail s b -> avail s' b.
  Proof. intros He [H|H]; [left; exact H|right; eapply extends_in; eassumption]. Qed.

  Definition outcome {A} (f : A -> blk) (s : wstate) (r : res A) (s' : wstate) : Prop :=
    dfree (ws_trace s') /\ extends s s'
    /\ match r with
       | Ok a => In (f a) (ws_trace s') /\ (clean s -> clean s') /\ (nofail s -> nofail s')
       | _ => True
       end.

  (* ---- shard.serialize when the entries' targets are available ---- *)
  Section Ser.
    Variable size : N.
    Notation width := (pad_len size).
    Notation ser := (serialize_node size HashMurmur3 width).

    Definition good_g (n : bnode) : Prop :=
      forall cs, n = BShard cs -> forall s r s',
        (forall e, In e (entries_of n) -> avail s (e_target e)) ->
        ser_s size HashMurmur3 width n s = (r, s') -> dfree (ws_trace s) ->
        dfree (ws_trace s') /\ extends s s'
        /\ match r with
           | Ok a => a = ser n /\ In (fst (ser n)) (ws_trace s') /\ (clean s -> clean s') /\ (nofail s -> nofail s')
           | _ => True
           end.

    Lemma ser_step_sound_g cs : Forall (fun kc => good_g (snd kc)) cs ->
      forall s r s', (forall e, In e (entries_of (BShard cs)) -> avail s (e_target e)) ->
        ser_step fail_open fail_commit size cs s = (r, s') -> dfree (ws_trace s) ->
        dfree (ws_trace s') /\ extends s s'
        /\ match r with
           | Ok _ => (forall b sub, In (b, BShard sub) cs -> In (fst (ser (BShard sub))) (ws_trace s'))
                     /\ (clean s -> clean s') /\ (nofail s -> nofail s')
           | _ => True
           end.
    Proof.
      induction 1 as [|[b c] r0 Hc _ IH]; intros s r s' Hav Hs Hd.
      - inversion Hs; subst. split; [exact Hd|]. split; [apply extends_refl|]. split; [intros ? ? []|auto].
      - assert (Hav' : forall e, In e (entries_of (BShard r0)) -> avail s (e_target e)).
        { intros e He. apply Hav. cbn [entries_of flat_map]. apply in_or_app. right. exact He. }
        cbn [ser_step] in Hs. destruct c as [e|sub].
        + destruct (IH s r s' Hav' Hs Hd) as (Hd' & He & Hr). split; [exact Hd'|]. split; [exact He|].
          destruct r as [u| |]; auto. destruct Hr as (Hin & Hcl & Hnf). split; [|auto].
          intros b0 sub0 [E|Hi]; [discriminate|]. apply (Hin b0 sub0 Hi).
        + cbn [snd] in Hc.
          assert (Havc : forall e, In e (entries_of (BShard sub)) -> avail s (e_target e)).
          { intros e He. apply Hav. cbn [entries_of flat_map snd]. apply in_or_app. left. exact He. }
          destruct (serialize_s fail_open fail_commit size HashMurmur3 width (BShard sub) s) as [r1 s1] eqn:E1.
          destruct (Hc sub eq_refl s r1 s1 Havc E1 Hd) as (Hd1 & He1 & Hr1).
          destruct r1 as [a| |].
          * destruct (IH s1 r s' (fun e He => avail_extends s s1 _ He1 (Hav' e He)) Hs Hd1) as (Hd' & He' & Hr).
            split; [exact Hd'|]. split; [eapply extends_trans; eassumption|].
            destruct r as [u| |]; auto. destruct Hr as (Hin & Hcl & Hnf). destruct Hr1 as (_ & Hin1 & Hcl1 & Hnf1). split; [|auto].
            intros b0 sub0 [E|Hi]; [inversion E; subst; eapply extends_in; eassumption|apply (Hin b0 sub0 Hi)].
          * inversion Hs; subst. auto.
          * inversion Hs; subst. auto.
    Qed.

    Lemma serialize_s_good_g n : good_g n.
    Proof.
      induction n as [e|cs0 IH] using bnode_ind'; intros cs En s r s' Hav Hs Hd; [discriminate|]. inversion En; subst cs0. clear En.
      rewrite (serialize_s_shard fail_open fail_commit size) in Hs.
      destruct (ser_step fail_open fail_commit size cs s) as [r1 s1] eqn:E1.
      destruct (ser_step_sound_g cs IH s r1 s1 Hav E1 Hd) as (Hd1 & He1 & Hr1).
      destruct r1 as [u| |]; [|inversion Hs; subst; auto|inversion Hs; subst; auto].
      destruct Hr1 as (Hin & Hcl & Hnf).
      destruct (ser (BShard cs)) as [b sz] eqn:Eser.
      assert (Eb : b = fst (ser (BShard cs))) by (rewrite Eser; reflexivity).
      destruct (store_checked b s1) as [r2 s2] eqn:E2.
      assert (Hkids : forall c, In c (kids b) -> In c (ws_trace s1)).
      { intros c Hc. rewrite Eb, (ser_shard_blk size) in Hc. cbn [kids] in Hc. apply filter_In in Hc. destruct Hc as [Hc Hne].
        apply in_map_iff in Hc. destruct Hc as (l & <- & Hl).
        apply (Permutation_in _ (Permutation_sym (sort_perm _))) in Hl. apply in_map_iff in Hl. destruct Hl as ([k ch] & <- & Hkc).
        destruct ch as [e|sub].
        - rewrite tgt_val in *. destruct (avail_extends s s1 _ He1 (Hav e ltac:(cbn [entries_of]; apply in_flat_map; exists (k, BVal e); split; [exact Hkc|left; reflexivity]))) as [Hx|Hx]; [|exact Hx].
          rewrite Hx in Hne. discriminate.
        - rewrite tgt_shard. apply (Hin k sub Hkc). }
      destruct (store_spec fail_open fail_commit b s1 r2 s2 E2 Hd1 Hkids) as (Hd2 & He2 & Hr2).
      destruct r2 as [b'| |]; inversion Hs; subst r s'; (split; [exact Hd2|]); (split; [eapply extends_trans; eassumption|]); auto.
      destruct Hr2 as (_ & Hinb & Hcl2 & Hnf2). split; [reflexivity|]. cbn [fst]. auto.
    Qed.
  End Ser.

  (* ---- BuildUnixFSDirectory over available entries ---- *)
  Lemma build_dir_s_outcome entries s r s' :
    (forall e, In e entries -> avail s (e_target e)) ->
    build_dir_s entries s = (r, s') -> dfree (ws_trace s) -> outcome fst s r s'.
  Proof.
    intros Hav Hb Hd. unfold build_dir_s in Hb. unfold outcome.
    destruct (shardSplitThreshold <? estimate_dir_size entries).
    - destruct (log2_exact defaultShardWidth) as [lg|]; [|inversion Hb; subst; split; [exact Hd|split; [apply extends_refl|exact I]]].
      destruct (add_all lg entries) as [cs| |] eqn:Ea; [| inversion Hb; subst; split; [exact Hd|split; [apply extends_refl|exact I]]
                                                         | inversion Hb; subst; split; [exact Hd|split; [apply extends_refl|exact I]]].
      destruct (negb (defaultShardWidth mod 8 =? 0)); [inversion Hb; subst; split; [exact Hd|split; [apply extends_refl|exact I]]|].
      destruct (add_all_spec lg entries cs Ea) as [_ Hp].
      destruct (serialize_s_good_g defaultShardWidth (BShard cs) cs eq_refl s r s'
                  (fun e He => Hav e (Permutation_in _ Hp He)) Hb Hd) as (Hd' & He' & Hr).
      split; [exact Hd'|]. split; [exact He'|]. destruct r as [a| |]; auto.
      destruct Hr as (Ea' & Hin & Hc & Hn). rewrite Ea'. auto.
    - unfold build_plain_s in Hb. destruct (build_plain entries) as [b sz] eqn:Eb.
      destruct (store_checked b s) as [r2 s2] eqn:E2.
      assert (Hk : forall c, In c (kids b) -> In c (ws_trace s)).
      { intros c Hc. unfold build_plain in Eb. inversion Eb; subst b. cbn [kids] in Hc. apply filter_In in Hc. destruct Hc as [Hc Hne].
        apply in_map_iff in Hc. destruct Hc as (l & <- & Hl). apply (Permutation_in _ (Permutation_sym (sort_perm _))) in Hl.
        apply in_map_iff in Hl. destruct Hl as (e & <- & He). cbn [l_target entry_link] in *.
        destruct (Hav e He) as [Hx|Hx]; [rewrite Hx in Hne; discriminate|exact Hx]. }
      destruct (store_spec fail_open fail_commit b s r2 s2 E2 Hd Hk) as (Hd2 & He2 & Hr2).
      destruct r2 as [b'| |]; inversion Hb; subst r s'; (split; [exact Hd2|]); (split; [exact He2|]); auto.
      destruct Hr2 as (_ & Hinb & Hcl2 & Hnf2). cbn [fst]. auto.
  Qed.

  (* ---- the importer ---- *)
  Theorem import_s_outcome t : forall s r s', import_s t s = (r, s') -> dfree (ws_trace s) -> outcome fst s r s'.
  Proof.
    induction t as [c|x| |entries IH] using fsnode_ind'; intros s r s' Hi Hd.
    - cbn [import_s] in Hi. destruct (build_file_s_sound fail_open fail_commit W (chunk c) s r s' Hi Hd) as (Hd' & He & Hr).
      split; [exact Hd'|]. split; [exact He|]. destruct r as [a| |]; auto. destruct Hr as (Hl & Hc & Hn).
      split; [apply Hl; left; reflexivity|auto].
    - cbn [import_s] in Hi. unfold build_symlink_s in Hi. destruct (store_checked (symlink_blk x) s) as [r2 s2] eqn:E2.
      destruct (store_spec fail_open fail_commit (symlink_blk x) s r2 s2 E2 Hd ltac:(intros c [])) as (Hd2 & He2 & Hr2).
      destruct r2 as [b'| |]; inversion Hi; subst r s'; (split; [exact Hd2|]); (split; [exact He2|]); auto.
      destruct Hr2 as (-> & Hinb & Hcl2 & Hnf2). cbn [fst]. auto.
    - inversion Hi; subst. split; [exact Hd|]. split; [apply extends_refl|exact I].
    - rewrite import_s_dir in Hi.
      assert (G : forall es, Forall (fun e => forall s r s', import_s (snd e) s = (r, s') -> dfree (ws_trace s) -> outcome fst s r s') es ->
                  forall acc s r s', (forall e, In e acc -> avail s (e_target e)) ->
                    import_links_s es acc s = (r, s') -> dfree (ws_trace s) -> outcome fst s r s').
      { induction 1 as [|[name child] rest Hc _ IHr]; intros acc s0 r0 s0' Hav Hl Hd0.
        - cbn [import_links_s] in Hl. apply (build_dir_s_outcome (rev acc) s0 r0 s0'); [|exact Hl|exact Hd0].
          intros e He. apply Hav. apply in_rev. exact He.
        - cbn [import_links_s] in Hl. cbn [snd] in Hc.
          destruct (import_s child s0) as [rc s1] eqn:Ec.
          destruct (Hc s0 rc s1 Ec Hd0) as (Hd1 & He1 & Hr1).
          destruct rc as [[b sz]| |]; [|inversion Hl; subst; split; [exact Hd1|split; [exact He1|exact I]]|inversion Hl; subst; split; [exact Hd1|split; [exact He1|exact I]]].
          destruct Hr1 as (Hin1 & Hc1 & Hn1). cbn [fst] in Hin1.
          destruct (IHr (mk_entry name (hash name) (Z.of_N sz) b :: acc) s1 r0 s0') as (Hd2 & He2 & Hr2); [|exact Hl|exact Hd1|].
          + intros e [<-|He]; [right; exact Hin1|apply (avail_extends s0 s1 _ He1), Hav, He].
          + split; [exact Hd2|]. split; [eapply extends_trans; eassumption|]. destruct r0 as [a| |]; auto.
            destruct Hr2 as (H1 & H2 & H3). auto. }
      apply (G entries IH [] s r s'); [intros e []|exact Hi|exact Hd].
  Qed.
End ImportS.

(* ---- BuildUnixFSRecursive as Go returns it ---- *)
Definition BuildUnixFSRecursive (fo fc : N -> option N) (W : nat) (chunk : bytes -> list bytes) (hash : bytes -> bytes)
  (t : fsnode) (s : wstate) : goret * wstate :=
  let '(r, s') := import_s fo fc W chunk hash t s in (of_res r, s').

Theorem import_store_safe fo fc W chunk hash t lnk sz err s' :
  BuildUnixFSRecursive fo fc W chunk hash t ws0 = ((lnk, sz, err), s') ->
  (forall pre post, ws_trace s' = pre ++ post -> dfree pre)
  /\ (err <> None -> lnk = None)
  /\ (err = None -> exists root, lnk = Some root /\ (forall x, In x (built_blocks root) -> In x (ws_trace s'))
                               /\ no_failure fo fc s' /\ clean s').
Proof.
  unfold BuildUnixFSRecursive. destruct (import_s fo fc W chunk hash t ws0) as [r s1] eqn:Ei.
  destruct (import_s_outcome fo fc W chunk hash t ws0 r s1 Ei dfree_nil) as (Hd & _ & Hr).
  intros Hres. assert (s1 = s') by (inversion Hres; reflexivity). subst s1.
  split; [intros pre post E; apply (dfree_prefix pre post); rewrite <- E; exact Hd|].
  destruct r as [[root sz']| |]; cbn [of_res] in Hres; inversion Hres; subst.
  - split; [congruence|]. intros _. exists root. split; [reflexivity|]. destruct Hr as (Hin & Hc & Hn). cbn [fst] in Hin.
    split; [apply (dfree_closed _ Hd _ Hin)|]. split; [apply Hn, no_failure_ws0|apply Hc, clean_ws0].
  - split; [reflexivity|discriminate].
  - split; [reflexivity|discriminate].
Qed.
