(* signaling.go: UnixFSPathSelectorBuilder, and the part of go-ipld-prime's selector walk these
   selectors exercise, over an abstract tree of files and directories (directory lookup = the map of
   its entries, C02/C15; link loading always succeeds here — faults are C05/C12). *)
From UV Require Export Base.Prelude.
Local Open Scope N_scope.

(* ipld.ParsePath: split on '/', drop empty segments ("." and ".." are ordinary names) *)
Fixpoint split_slash (p cur : bytes) : list bytes :=
  match p with
  | [] => match cur with [] => [] | _ => [cur] end
  | c :: r => if c =? 47 then (match cur with [] => split_slash r [] | _ => cur :: split_slash r [] end)
              else split_slash r (cur ++ [c])
  end.
Definition parse_path (p : bytes) : list bytes := split_slash p [].

(* selector specs as built by the ssb calls of signaling.go *)
Inductive sel :=
| SMatcher
| SFields (name : bytes) (next : sel)          (* ExploreFields with one field *)
| SInterpretAs (adl : N) (next : sel)          (* 0 = "unixfs", 1 = "unixfs-preload" *)
| SUnion (a b : sel)
| SRecAllDepth1                                (* ExploreRecursive(depth 1, ExploreAll(edge)) *)
| SRecAllNoLimit.                              (* ExploreRecursive(none, ExploreAll(edge)) *)

Definition MatchUnixFSSelector := SInterpretAs 0 SMatcher.
Definition MatchUnixFSPreloadSelector := SInterpretAs 1 SMatcher.
Definition MatchUnixFSEntitySelector := SInterpretAs 0 (SUnion SMatcher SRecAllDepth1).
Definition ExploreAllRecursivelySelector := SRecAllNoLimit.

(* UnixFSPathSelectorBuilder: wrap from the last segment outward *)
Definition build_selector (path : bytes) (target : sel) (matchPath : bool) : sel :=
  fold_right (fun seg ss =>
                let s := SInterpretAs 0 (SFields seg ss) in
                if matchPath then SUnion SMatcher s else s)
             target (parse_path path).

(* the tree being traversed *)
Inductive ent :=
| EFile (id : N)                               (* a file, identified by its content *)
| EDir (id : N) (entries : list (bytes * ent)).

Fixpoint dir_get (entries : list (bytes * ent)) (k : bytes) : option ent :=
  match entries with
  | [] => None
  | (n, e) :: r => if bytes_eqb k n then Some e else dir_get r k
  end.

(* a SelectionMatch visit: the entity, and whether the visitor saw the raw dag-pb node or the UnixFS view *)
Inductive visit := VRaw (e : ent) | VUnixFS (e : ent).

(* selector properties used by walkAdv *)
Fixpoint decides (s : sel) : bool :=
  match s with
  | SMatcher => true
  | SInterpretAs _ n => decides n
  | SUnion a b => decides a || decides b
  | _ => false
  end.
Definition reifiable (s : sel) : bool := match s with SInterpretAs _ _ => true | _ => false end.

(* the field a selector is interested in and the selector to continue with (these selectors have at most one) *)
Fixpoint explore_field (s : sel) : option (bytes * sel) :=
  match s with
  | SFields n next => Some (n, next)
  | SInterpretAs _ n => explore_field n
  | SUnion a b => match explore_field a with Some x => Some x | None => explore_field b end
  | _ => None
  end.

(* walkAdv restricted to SelectionMatch visits.  `raw` tells whether the node at hand is the raw dag-pb
   node (fresh from a link load) — it becomes the UnixFS view only if the CURRENT selector is Reifiable. *)
Fixpoint walk (fuel : nat) (e : ent) (s : sel) : list visit :=
  match fuel with
  | O => []
  | S f =>
    let reified := reifiable s in
    let here := if decides s then [if reified then VUnixFS e else VRaw e] else [] in
    here ++
    match explore_field s with
    | None => []                                   (* matcher / explore-all below a match: no further matches *)
    | Some (seg, next) =>
      if reified then
        match e with
        | EDir _ entries => match dir_get entries seg with
                            | Some child => walk f child next   (* the link is loaded, the child arrives raw *)
                            | None => []
                            end
        | EFile _ => []                              (* bytes kind: a scalar, nothing to explore *)
        end
      else []                                        (* a raw dag-pb node has no field of that name (only Links / Data) *)
    end
  end.

Fixpoint sel_size (s : sel) : nat :=
  match s with
  | SFields _ n | SInterpretAs _ n => S (sel_size n)
  | SUnion a b => S (sel_size a + sel_size b)
  | _ => 1%nat
  end.
(* the walk descends at most once per selector constructor *)
Definition walk_matching (root : ent) (s : sel) : list visit := walk (S (sel_size s)) root s.

(* what the path names *)
Fixpoint resolve (e : ent) (segs : list bytes) : option ent :=
  match segs with
  | [] => Some e
  | s :: r => match e with
              | EDir _ entries => match dir_get entries s with Some c => resolve c r | None => None end
              | EFile _ => None
              end
  end.
