From UV Require Import Sel.Model.
From Coq Require Import ZifyNat.
Local Open Scope N_scope.

Definition is_match_target (t : sel) : Prop :=
  t = MatchUnixFSSelector \/ t = MatchUnixFSPreloadSelector \/ t = MatchUnixFSEntitySelector.

Lemma walk_target fuel e t : is_match_target t -> (1 <= fuel)%nat -> walk fuel e t = [VUnixFS e].
Proof.
  intros [ -> | [ -> | -> ] ] Hf; destruct fuel; try lia; reflexivity.
Qed.

Lemma walk_explore_all fuel e : walk fuel e ExploreAllRecursivelySelector = [].
Proof. destruct fuel; reflexivity. Qed.

Definition path_sel (segs : list bytes) (target : sel) : sel :=
  fold_right (fun seg ss => SInterpretAs 0 (SFields seg ss)) target segs.

Lemma build_selector_nomatch path target : build_selector path target false = path_sel (parse_path path) target.
Proof. reflexivity. Qed.

Lemma walk_path segs : forall fuel e target,
  is_match_target target -> (length segs < fuel)%nat ->
  walk fuel e (path_sel segs target) = match resolve e segs with Some x => [VUnixFS x] | None => [] end.
Proof.
  induction segs as [|seg rest IH]; intros fuel e target Ht Hf.
  - cbn [path_sel fold_right resolve]. apply walk_target; [exact Ht|lia].
  - destruct fuel as [|f]; [cbn in Hf; lia|].
    cbn [path_sel fold_right walk reifiable decides explore_field app resolve]. fold (path_sel rest target).
    destruct e as [id|id entries]; [reflexivity|].
    destruct (dir_get entries seg) as [child|]; [|reflexivity].
    apply IH; [exact Ht|cbn in Hf; lia].
Qed.

(* C03, path matching disabled: for EVERY tree and EVERY path string, the selector built for a matching
   target matches exactly the entity the path names (seen through the UnixFS view: a file's bytes, a
   directory's map) and nothing else; a path naming no entry matches nothing *)
Lemma path_sel_size segs target : (length segs < sel_size (path_sel segs target))%nat.
Proof.
  induction segs as [|a segs IH]; [destruct target; cbn; lia|].
  cbn [path_sel fold_right sel_size length]. fold (path_sel segs target). lia.
Qed.

Theorem path_selector_resolves root path target :
  is_match_target target ->
  walk_matching root (build_selector path target false) =
  match resolve root (parse_path path) with Some x => [VUnixFS x] | None => [] end.
Proof.
  intros Ht. unfold walk_matching. rewrite build_selector_nomatch. apply walk_path; [exact Ht|].
  pose proof (path_sel_size (parse_path path) target). lia.
Qed.

(* with the explore-all target nothing is reported as a match *)
Lemma walk_path_explore_all segs : forall fuel e, walk fuel e (path_sel segs ExploreAllRecursivelySelector) = [].
Proof.
  induction segs as [|seg rest IH]; intros fuel e; [apply walk_explore_all|].
  destruct fuel as [|f]; [reflexivity|].
  cbn [path_sel fold_right walk reifiable decides explore_field app]. fold (path_sel rest ExploreAllRecursivelySelector).
  destruct e as [id|id entries]; [reflexivity|]. destruct (dir_get entries seg); [apply IH|reflexivity].
Qed.

Theorem path_selector_explore_all_matches_nothing root path :
  walk_matching root (build_selector path ExploreAllRecursivelySelector false) = [].
Proof. unfold walk_matching. rewrite build_selector_nomatch. apply walk_path_explore_all. Qed.

(* path matching ENABLED, on the code as it is: ExploreUnion is not Reifiable, so the root is visited as
   the raw dag-pb node and the walk never descends — whatever the tree and the (non-empty) path *)
Theorem matchpath_stops_at_raw_root root path target :
  parse_path path <> [] ->
  walk_matching root (build_selector path target true) = [VRaw root].
Proof.
  intros Hne. unfold walk_matching, build_selector.
  destruct (parse_path path) as [|seg rest]; [congruence|]. reflexivity.
Qed.

(* the property's clause "each node along the path is additionally matched once, in order, before the target" *)
Definition matchpath_expected (root : ent) (segs : list bytes) : option (list ent) :=
  (fix go (e : ent) (segs : list bytes) : option (list ent) :=
     match segs with
     | [] => Some [e]
     | s :: r => match e with
                 | EDir _ entries => match dir_get entries s with
                                     | Some c => option_map (cons e) (go c r)
                                     | None => None
                                     end
                 | EFile _ => None
                 end
     end) root segs.

Theorem matchpath_clause_refuted :
  exists root path target expected,
    is_match_target target /\ matchpath_expected root (parse_path path) = Some expected
    /\ length (walk_matching root (build_selector path target true)) <> length expected.
Proof.
  exists (EDir 0 [([97], EFile 1)]), [97], MatchUnixFSSelector, [EDir 0 [([97], EFile 1)]; EFile 1].
  split; [left; reflexivity|]. split; [reflexivity|]. vm_compute. discriminate.
Qed.

(* parse_path: the segments are the non-empty pieces between slashes *)
Example parse_path_examples :
  parse_path [47;97;47;47;98;47] = [[97];[98]] /\ parse_path [] = [] /\ parse_path [46;46;47;46] = [[46;46];[46]].
Proof. repeat split; reflexivity. Qed.
