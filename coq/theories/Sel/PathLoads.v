(* Resolving a path over blocks: which blocks a traversal with the path selector requests from storage.
   At every segment the current node is reified by its UnixFS type; a plain directory is searched in its own link
   list (no request), a sharded directory through the HAMT lookup (requests: the shards on the segment's hash path);
   then the entry's block is requested and the walk continues there. *)
From UV Require Import Hamt.Read Hamt.NoPanic Hamt.HashBitsSpec Hamt.Refine Hamt.WorkBound Sel.Model File.Spec.
From UV Require Import Dir.Plain.
From Coq Require Import ZifyN ZifyNat ZifyBool.
Local Open Scope N_scope.

Section Walk.
  Variable fault : blk -> option err.
  Variable hash : bytes -> bytes.

  Definition node_type (b : blk) : option N :=
    match b with
    | Pb (Some d) _ => match decode_data d with Ok m => Some (d_type m) | _ => None end
    | _ => None
    end.

  (* LookupBySegment on the reified node: (entry block or error, requests made) *)
  Definition dir_step (b : blk) (seg : bytes) : res blk * list blk :=
    match node_type b, b with
    | Some t, Pb _ ls =>
      if t =? Data_Directory then (lookup_by_string ls seg, [])
      else if t =? Data_HAMTShard then Read.lookup fault b (hash seg) seg
      else (Err EInvalid, [])                       (* files, symlinks, ...: not a map *)
    | _, _ => (Err EInvalid, [])
    end.

  Fixpoint walk_path (b : blk) (segs : list bytes) : res blk * list blk :=
    match segs with
    | [] => (Ok b, [])
    | s :: r =>
      match dir_step b s with
      | (Ok child, tr) =>
        match fault child with
        | Some e => (Err e, tr ++ [child])
        | None => let '(res, tr') := walk_path child r in (res, tr ++ child :: tr')
        end
      | (Err e, tr) => (Err e, tr)
      | (Panic, tr) => (Panic, tr)
      end
    end.

  (* the blocks along a successfully resolved path, root excluded *)
  Fixpoint path_blocks (b : blk) (segs : list bytes) : list blk :=
    match segs with
    | [] => []
    | s :: r => match fst (dir_step b s) with Ok child => child :: path_blocks child r | _ => [] end
    end.

  (* every request is either a shard met by one segment's HAMT lookup or the entry block the segment names,
     in root-to-target order: the trace is the per-segment lookup requests, each followed by the entry's block *)
  Fixpoint walk_spec (b : blk) (segs : list bytes) : list blk :=
    match segs with
    | [] => []
    | s :: r =>
      snd (dir_step b s) ++
      match fst (dir_step b s) with
      | Ok child => child :: match fault child with Some _ => [] | None => walk_spec child r end
      | _ => []
      end
    end.

  Theorem walk_path_requests b : forall segs, snd (walk_path b segs) = walk_spec b segs.
  Proof.
    intros segs. revert b. induction segs as [|s r IH]; intros b; [reflexivity|].
    cbn [walk_path walk_spec]. destruct (dir_step b s) as [[child|e|] tr]; cbn [fst snd]; try (rewrite app_nil_r; reflexivity).
    destruct (fault child); [reflexivity|].
    specialize (IH child). destruct (walk_path child r) as [res tr']. cbn [snd] in *. rewrite IH. reflexivity.
  Qed.

  (* per segment at most one request per hash bit plus the entry: the whole resolution is bounded by the path *)
  Lemma dir_step_bounded b s : (forall k, length (hash k) = 8%nat) -> N.of_nat (length (snd (dir_step b s))) <= 64.
  Proof.
    intros Hlen. unfold dir_step. destruct (node_type b) as [t|]; [|cbn; lia].
    destruct b as [c|d ls|i n]; try (cbn; lia).
    destruct (t =? Data_Directory); [cbn; lia|]. destruct (t =? Data_HAMTShard); [|cbn; lia].
    unfold Read.lookup. pose proof (lookup_loads_bounded fault (Pb d ls) None (hash s) s 0) as Hb. cbv zeta in Hb.
    destruct Hb as [->|Hb]; [cbn; lia|]. unfold nbits in Hb. rewrite Hlen in Hb. lia.
  Qed.

  Theorem walk_path_bounded : (forall k, length (hash k) = 8%nat) ->
    forall segs b, N.of_nat (length (snd (walk_path b segs))) <= 65 * N.of_nat (length segs).
  Proof.
    intros Hlen segs. induction segs as [|s r IH]; intros b; [cbn; lia|].
    rewrite walk_path_requests. cbn [walk_spec]. rewrite app_length.
    pose proof (dir_step_bounded b s Hlen) as Hs.
    destruct (fst (dir_step b s)) as [child| |]; cbn [length]; try lia.
    destruct (fault child); cbn [length]; [lia|].
    specialize (IH child). rewrite walk_path_requests in IH. lia.
  Qed.

  (* the preloading reifier at the target ("unixfs-preload"): a file is read through once, a sharded directory is
     counted (length()), anything else needs no further block *)
  Definition preload_requests (b : blk) : list blk :=
    match node_type b with
    | Some t =>
      if (t =? Data_File) || (t =? Data_Raw) then let '(_, loads, _) := drain_all (stream fault b 0) [] [] in loads
      else if t =? Data_HAMTShard then snd (shard_length fault b)
      else []
    | None => []
    end.

  (* path selector with a preloading target: the lazy walk along the path, then the target's own blocks *)
  Definition walk_then_preload (b : blk) (segs : list bytes) : list blk :=
    match walk_path b segs with
    | (Ok target, tr) => tr ++ preload_requests target
    | (_, tr) => tr
    end.
End Walk.
