#!/bin/sh
# usage: ./seedtest.sh <patch.diff> <prop> [<prop>...]   — applies a seeded change to /repo, runs the checks, reverts
patch="$1"; shift
REPO=${VERIF_REPO:-/repo}; ROOT=${VERIF_ROOT:-/verif}
cd $REPO || exit 2
if ! git apply --check "$patch" 2>/dev/null; then
  if ! git apply --3way --check "$patch" 2>/dev/null; then echo "PATCH-DOES-NOT-APPLY $patch"; exit 2; fi
  git apply --3way "$patch" >/dev/null 2>&1
else
  git apply "$patch"
fi
git reset -q 2>/dev/null
cd $ROOT
for p in "$@"; do
  VERIF_NO_SEARCH=${VERIF_NO_SEARCH-} ./check "$p" 2>&1 | grep -E "^(VIOLATION|KNOWN|PASS|FAIL|ERROR)" | sed "s|^|[$p] |"
done
git -C $REPO checkout -- . ; git -C $REPO clean -fdq
